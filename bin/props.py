# per-property configuration of bin/check
PROPS = {
    "C18": {
        "runner": "C18",
        "replay_hint": "set lisp.Stepper to a callback returning the printed command script (0 NoOp, 1 Next, 2 In, 3 Out) and evaluate the printed program; compare with the run without Stepper (call lisp.ResetStepperForVerif() first, -tags verif)",
        "technique": "Coq model of the debugger section of EVAL (callback oracle, skip/outing1/outing2 flags, deferred resets in EVAL and do, loop-to-recursion switch, the catch path's bare continue) inside the evaluator model; lemmas: the section and do's hook keep the outcome and hand the callback exactly the invocation's form and scope; correspondence on result, trace and the exact callback log; with/without stepper equality as direct oracle",
        "level_text": "Proved: the debugger section and do's deferred flag reset never change the outcome of the code they wrap for any of the four commands (they only rewrite debugger flags), the callback receives exactly (ast, scope) of the invocation, a fifth command is a host panic. The global statement (whole programs compute the same under every command sequence) needs that the rest of the evaluator never reads the flags; that is true by construction of the model (only dbg_entry/outing_hook touch the field) but is not stated as a relational theorem here (partial). Tie: programs of the C01/C03/C12 generators x 9 scripts each (constant, periodic, random): result, trace and the exact sequence of forms handed to the callback vs the extracted model (54,000 cases thorough, 0 disagreements), and result/trace with stepper vs without on the implementation.",
        "level_note": "trusted: Coq kernel+VM, extraction, OCaml driver, Go harness; hooks: verif-tagged ResetStepperForVerif (the flags are package variables that survive an evaluation: successive evaluations in one process influence each other's callback sequence — noted in DESIGN); the terminal UI of package debugger is not modelled",
        "trusted": ["hand-written model of the debugger section of mal.go; tie = correspondence incl. callback log"],
        "assumptions": ["the callback returns one of the four commands; recursion bounded within the host stack"],
        "vm_k": 10,
    },
    "C17": {
        "runner": "C17",
        "replay_hint": "lisp.READ(module text, types.NewCursorFile(\"mod\")) then lisp.EVAL; look at err.(LispError).Position()",
        "technique": "scanner+reader+evaluator models composed with source rows; lemmas on the only two places where an error's position is decided (NewLispError keeps a module position / positions an anonymous error at the call form; unbound symbols at their token); predicted begin/end rows vs Go on generated modules with one planted fault; line arithmetic oracle in the generator",
        "level_text": "Proved on the model: a position naming a module is never overwritten while the error propagates (so faults inside functions called through map/apply/swap!/eval keep their place), anonymous errors are positioned at the call form, unbound symbols at their own token, tokens/lists carry first-token..last-token rows. The end-to-end statement (position within the containing top-level form, covering the fault's line, for every wrapper) is checked, not proved: 700 (20,000 thorough) generated modules with comments, blank lines, multi-line forms and raw strings before the fault, 9 fault kinds x 11 wrappers incl. functions defined earlier and called later through builtins; the generator knows the lines, the model predicts the exact rows.",
        "level_note": "trusted: Coq kernel+VM, extraction, OCaml driver, Go harness; modelled not verified: columns and byte offsets (rows only), s.Pos() semantics of the scanner (line of the lookahead rune); errors raised in a future's thread are outside the property",
        "trusted": ["hand-written models of scanner, reader, evaluator incl. row bookkeeping; tie = correspondence of reported rows"],
        "assumptions": [],
        "vm_k": 20,
    },
    "C19": {
        "runner": "C19",
        "replay_hint": "evaluate the printed program by the two routes named in the violation (AST via lisp.EVAL; text via lisp.READ+EVAL; forms via lisp.REPL; file via (load-file path))",
        "technique": "evaluator + scanner + reader + printer models composed (read then eval, op E) against Go on seven delivery routes; pairwise equality of the routes on the implementation as direct oracle; Coq lemmas: do = sequential forms, printed strings re-read exactly, load-file wrapper text regenerated from the header and pinned",
        "level_text": "Proved: a single `do` evaluates its forms one after the other in the same scope; printed strings re-read exactly; the wrapper load-file builds (regenerated from header-load-file.lisp on every run) closes on a line of its own. NOT proved in this revision: that evaluation is independent of source positions for all programs (it is checked: every text route is run through the composed model and compared). Tie: generated programs (C01 generator + top-level defs) delivered as position-less AST, re-read printed form with/without module, random layouts (comments with brackets/quotes between any tokens, blank lines, CRLF, leading and trailing comments without final newline), one do, form by form through REPL, load-file of a temp file; all seven results and traces must coincide and the text routes must equal the model's.",
        "level_note": "trusted: Coq kernel+VM, extraction, OCaml driver, Go harness, translator; partial: no unbounded theorem for position-irrelevance of eval and for layout-invariance of tokenize (both covered by correspondence only)",
        "trusted": ["hand-written models of the scanner, reader, printer and evaluator; tie = correspondence + regenerated header text"],
        "assumptions": ["programs terminate within the model fuel"],
        "vm_k": 20,
    },
    "C15": {
        "runner": "C15",
        "replay_hint": "lisp.READWithPreamble(lisp.AddPreamble(src, m)) vs reader.Read_str(src, nil, &m) from Go",
        "technique": "Coq model of AddPreamble/READWithPreamble (line loop, trimming, hand-written matcher for the pinned regular expression) + theorem: the transport equals reading the source with the placeholders bound to their re-read values, for every source and every map of valid names to single-line printed values; correspondence + three-way comparison on generated sources and values",
        "level_text": "C15_transport is proved for all sources and maps (induction over the entries; the line AddPreamble writes is cut at its newline, survives trimming, is recognised by the regular expression with exactly its name and printed value). C15_quoted_strings_are_single_line: no string content can break out of its line in quoted form, and the raw form is only used without newline. The regular expressions and the prefix constant are regenerated from mal.go/reader.go on every run and pinned by a lemma. That re-reading a printed value gives the value back is C06 (partial). Tie: generated sources with placeholders in code/quoted data/map keys/sets/strings/raw strings/comments and their own preamble-looking lines x maps to nested values full of quotes, newlines, semicolons, brackets, placeholder names, preamble look-alikes, multi-line JSON: READWithPreamble(AddPreamble) vs Read_str with the map (direct oracle) vs the model; plus raw multi-line preamble texts through READWithPreamble vs the model.",
        "level_note": "trusted: Coq kernel+VM, extraction, OCaml driver, Go harness, translator (regex literals via go/ast); modelled not verified: Go's regexp engine on the two pinned patterns (hand-written matcher), strings.Cut/Trim; symbols starting with $ inside VALUES are outside the domain (the preamble re-reads values without placeholder table)",
        "trusted": ["hand-written transcription of AddPreamble/READWithPreamble (Preamble.v); tie = correspondence + pinned regex literals"],
        "assumptions": ["placeholder names are valid ($ followed by letters, digits, - or _); values print on one line not ending in a blank (true of every printable data value after fix 9935961)"],
        "vm_k": 100,
    },
    "C06": {
        "runner": "C06",
        "replay_hint": "(read-string (pr-str VALUE)) in a fresh environment, or lisp.READ(lisp.PRINT(v)) from Go",
        "technique": "Coq proofs that the reader's un-escaping inverts the printer's escaping for every string (quoted and raw form) and that the printed string tokens read back; whole-value round trip by correspondence (printed text and read-back value vs the extracted printer/scanner/reader models) and an independent structural comparison as direct oracle",
        "level_text": "C06_unescape_escape, C06_undouble_double, C06_printed_*_token_reads_back are proved for all strings of code points (any Unicode, quotes, backslashes, newlines, the raw-string quote, U+029E). The composition through the scanner for nested values is not yet a theorem (partial): it is checked on every string of length <=2 (<=3 thorough) over 36 hard characters alone and inside collections, JSON-looking strings, symbols/keywords of the token alphabet, int64 extremes, seeded random nested values, and accepted source texts (read, print, read again) — Go's printed text and read-back value against the model, and read-back value against the original with an independent structural comparison. Open known finding: strings containing U+0000 (the third-party scanner rejects NUL).",
        "level_note": "trusted: Coq kernel+VM, extraction, OCaml driver, Go harness; modelled not verified: scanner (C05), strconv; the domain excludes floats, strings starting with U+029E (they ARE keywords in the Go representation), symbols/keywords outside the token alphabet (decided with the real scanner by the harness)",
        "trusted": ["hand-written transcription of printer.go, reader.go and the scanner; tie = correspondence"],
        "assumptions": ["map and set members print in Go's random order: printed text is compared only when no map/set has more than one entry"],
        "vm_k": 150,
    },
    "C16": {
        "runner": "C16",
        "replay_hint": "feed the printed Go string literal to lisp.READ and look at the error (repl.MultiLineForVerif under -tags verif for the REPL verdict)",
        "technique": "Coq theorem on the reader model: a token text that runs out inside open brackets with complete items before the end is rejected with the expected-closer-got-EOF error naming the innermost closer (induction over the nesting); complete texts accepted, surplus closer / second expression rejected with another error; REPL's continuation strings regenerated and matched; correspondence on generated expressions cut after every token and extended by every closer",
        "level_text": "C16_* are proved for every nesting of lists, vectors, maps, sets, constructor brackets, reader macros and ^meta (token level; that bracket characters inside strings, raw strings and comments are not tokens is the scanner model, tied by correspondence). The REPL's five continuation messages are extracted from repl.go on every run and shown equal to the reader's message format. Tie: generated well-formed expressions (strings/raw strings/comments containing brackets) read whole, cut after every token, extended by every closer, doubled, with a wrong closer — READ's outcome class vs the extracted model and the REPL's multiLine verdict (verif-tagged export) vs the class; completability decided by closing the open brackets and re-reading.",
        "level_note": "trusted: Coq kernel+VM, extraction, OCaml driver, Go harness, translator (string literals of repl.go/reader.go via go/ast); modelled not verified: the scanner (see C05); the lift from token level to text relies on the scanner model",
        "trusted": ["hand-written transcription of reader/reader.go and the scanner (Reader.v, Scanner.v); tie = correspondence + regenerated message strings"],
        "assumptions": [],
        "vm_k": 200,
    },
    "C05": {
        "runner": "C05",
        "replay_hint": "feed the printed Go string literal to lisp.READ / READWithPreamble / (read-string ...) under recover()",
        "technique": "Coq transcription of the third-party scanner (Scan/tokenize) and of reader.go over runes, with checked primitives; theorem: Read_str neither panics nor runs out of fuel for every rune list (scanner progress, token shapes, reader fuel sufficiency); correspondence of tokens and read outcomes on exhaustive/truncated/boundary texts",
        "level_text": "C05_read_total is proved for all rune lists (valid or invalid UTF-8, truncated anywhere), with or without module, placeholder values and environment: no panic (token-shape invariants make every slice of the reader safe) and no fuel exhaustion (each Scan consumes a rune; each read_form consumes a token). Tie: ~40,000 cases quick (6.4 million thorough, 0 disagreements): every string of length <=3/4 over a 33-symbol alphabet, every prefix and single-rune deletion of well-formed texts, token soups, number-token torture, texts straddling the scanner's 1024-byte buffer; for each, token kinds/texts/lines and the outcome of READ / READ+module / Read_str+placeholders / READ+env are compared with the extracted model; READWithPreamble and read-string run under recover() and a watchdog, then PRINT.",
        "level_note": "trusted: Coq kernel+VM, extraction, OCaml driver, Go harness (it decodes UTF-8 into runes for the model), translator (Go's unicode letter/digit tables -> Gen/Unicode.v); modelled not verified: the scanner's 1024-byte buffer refill and token splicing (covered by boundary inputs), columns/byte offsets, unicode tables (generated from Go's own), strconv.ParseInt/ParseFloat (as parse_int / float32 overflow test); READWithPreamble's line loop is modelled under C15",
        "trusted": ["hand-written transcription of jig/scanner v1.2.0 Scan and reader/reader.go (Scanner.v, Reader.v); tie = correspondence on tokens and outcomes"],
        "assumptions": ["the Go constructor reached by read_external does not panic (binder-wrapped, C20)"],
        "vm_k": 300,
    },
    "C02": {
        "runner": "C02",
        "replay_hint": "evaluate the printed (do (def r0 ..) ... rJ) program in a fresh environment and compare rJ with its value right after its own def: echo PROGRAM | go/bin/enc -impl",
        "technique": "Coq frame theorem on a slice-level arena machine (explicit backing arrays with spare capacity, map pointers, Go append with an arbitrary growth oracle), lifted by induction to histories of any length; the machine and the L0 evaluator both run the generated histories against Go, every register re-inspected after every step",
        "level_text": "C02_step_frame / C02_history_immutable / C02_derived_values_independent are proved for every operation of the arena machine (literals, conj on lists and vectors, concat, cons, rest, vec, seq, subvec, take, drop, assoc on maps and vectors, dissoc, merge, with-meta), every history length and fan-out, every capacity layout and every growth policy of append: objects that existed before a step are untouched, so a binding reads the same forever. Refuted variants (in-place conj, in-place dissoc) show the theorem has teeth. Tie: (1) the arena machine under Go's growth rule runs 700 (20,000 thorough) generated histories and must read back exactly what the implementation shows; (2) general histories over all listed operations incl. update/update-in/apply/map/quasiquote splices/& rest/closure capture run on the L0 evaluator model; on the implementation every earlier register is re-read after every step (model-free oracle).",
        "level_note": "trusted: Coq kernel+VM, extraction, OCaml driver, Go harness; modelled not verified: Go's append growth (universally quantified in the theorems, instantiated with doubling for the correspondence), operations outside the arena machine's vocabulary (higher-order builtins, quasiquote, rename-keys, assoc-in) are covered by correspondence and oracle only; registration-time mutation of _PACKAGES_ is outside the quantifier",
        "trusted": ["hand-written slice-level model of core.go's collection builtins (Arena.v); tie = correspondence of the arena machine itself with the implementation"],
        "assumptions": ["values are acyclic (arena_ok: objects refer to older objects only)"],
        "vm_k": 60,
    },
    "C13": {
        "runner": "C13",
        "replay_hint": "evaluate the printed call in a fresh environment: echo CALL | go/bin/enc -impl",
        "technique": "Coq transcription of the collection builtins (Core.v) + proofs of the abstract-datatype laws, key-distinctness preservation and error-outside-domain; exhaustive argument tuples + compositions vs the extracted model; laws evaluated on the implementation as direct oracle",
        "level_text": "Theorems C13_*: the transcribed builtins satisfy the defining laws of finite maps (get/assoc/dissoc/contains?/merge), of ordered sequences (take/drop partition, cons/first/rest, conj kinds, nth), keep map keys distinct, and return an error (never a value) outside the domain (nth, subvec window, odd hash-map, non-collections) — for all arguments. Tie: ~100,000 calls (every builtin x every argument tuple of length 0..2 over a 39-value universe, sampled length 3, higher-order builtins with closures, random compositions) through the real EVAL vs the extracted model, and the laws themselves evaluated on the implementation with random values.",
        "level_note": "trusted: Coq kernel+VM, extraction, OCaml driver, Go harness; modelled not verified: Go map iteration order (order-dependent results are compared as sets), metadata (with-meta/meta), printing; not every one of the ~40 builtins has its own law theorem (the others are covered by the correspondence only)",
        "trusted": ["hand-written transcription of lib/core/core.go (Core.v); tie = exhaustive + random correspondence"],
        "assumptions": ["values are acyclic; map keys are strings (as Go's map[string]MalType enforces)"],
        "vm_k": 300,
    },
    "C20": {
        "runner": "C20",
        "replay_hint": "register a function of the printed signature with call.CallOverrideFN and the printed bounds, call it with the printed arguments (go/cmd/impl/c20.go builds it with reflect.MakeFunc)",
        "technique": "Coq model of call.go (bind/gate/invoke) + theorems (entered iff within contract, effective bounds, registration panics only on misuse, result conventions, panic containment); exhaustive finite grid of signatures x bounds x argument lists vs the model",
        "level_text": "Theorems C20_* hold for every signature, bound pair and argument list of the model of lib/call/call.go. Tie: the complete finite grid (context x fixed parameter lists x variadic x 0-3 results x declared bounds in -1..3 x ok/error/panic behaviour x argument lists of length 0..max+2 with a wrong kind or nil at every position), ~80,000 calls through the real binder on functions built with reflect.MakeFunc that record whether and with what they were entered, compared with the extracted model and with a contract oracle computed in the harness.",
        "level_note": "trusted: Coq kernel+VM, extraction, OCaml driver, Go harness; modelled not verified: reflect.Value.Call's assignability (as `assignable`), runtime.FuncForPC naming; the name rule (lower case, _ to -) is tested on named functions, not proved",
        "trusted": ["hand-written model of lib/call/call.go (Binder.v); tie = exhaustive correspondence on the finite grid"],
        "assumptions": ["reflect assignability as modelled for the kinds interface{}, int, string, bool, Vector"],
        "vm_k": 200,
    },
    "C01": {
        "runner": "C01",
        "replay_hint": "evaluate the printed program in a fresh environment (lisp.READ + lisp.EVAL), e.g. echo PROGRAM | go/bin/enc -impl",
        "technique": 'Coq model of EVAL (fuel-indexed transcription) + per-clause equations proved on it; correspondence model vs Go on exhaustive small + random typed programs; definitional templates as direct oracle',
        "level_text": "Theorems C01_* are equations about one iteration of the transcribed EVAL loop (def in current scope returns value, fn captures its scope, if evaluates only the selected branch with nil/false falsy, quote, closure call binds parameters in a child of the defining scope after evaluating arguments once left to right); they hold for all programs, states and fuel. The evaluator model is tied to the code by the correspondence check (every program of a small enumeration + seeded typed random programs, results/errors and ordered trace! effects compared with the extracted model, which loads the repository's own lisp headers regenerated on every run) and by definitional templates with prescribed outcomes. A full refinement to a separate definitional evaluator is not proved (see DESIGN).",
        "level_note": "trusted: Coq kernel+VM, extraction (ExtrOcamlBasic), OCaml glue driver, Go harness, translator go/cmd/gen (headers through the repository's own reader); modelled not verified: Go runtime behaviour behind each checked primitive (index/slice/type assertion), reflect assignability, map iteration order (programs with effects inside map literals are not generated), metadata, printing of functions/atoms",
        "trusted": ["hand-written model of mal.go/env.go/call.go/core.go (Eval.v, Env.v, Binder.v, Core.v); tie = correspondence + regenerated headers"],
        "assumptions": ["programs terminate within the model fuel (RUN_FUEL=20000 loop iterations)"],
    },
    "C03": {
        "runner": "C03",
        "replay_hint": "evaluate the printed program in a fresh environment (lisp.READ + lisp.EVAL), e.g. echo PROGRAM | go/bin/enc -impl",
        "technique": "Coq model of try/catch/finally inside the EVAL transcription + lemmas (payload preserved by re-positioning, finally exactly once with outcome unchanged, handler gets the body's error); correspondence on generated nested try programs; templates as direct oracle",
        "level_text": "Theorems C03_* hold for all states/continuations of the model: re-wrapping never changes the payload, throw delivers values as payload and Go errors unchanged, the catch variable is bound to the payload, the deferred finally runs exactly once after body and handler in the try's own scope and cannot change the outcome. Tie to the code: correspondence on generated programs nesting try/catch/finally with throws in body/callee/builtin/map/apply/macro/handler and every data kind as thrown object (value, error payload, ordered trace compared), plus templates with prescribed outcomes.",
        "level_note": "trusted: Coq kernel+VM, extraction (ExtrOcamlBasic), OCaml glue driver, Go harness, translator go/cmd/gen (headers through the repository's own reader); modelled not verified: Go runtime behaviour behind each checked primitive (index/slice/type assertion), reflect assignability, map iteration order (programs with effects inside map literals are not generated), metadata, printing of functions/atoms",
        "trusted": ["hand-written model of mal.go/env.go/call.go/core.go (Eval.v, Env.v, Binder.v, Core.v); tie = correspondence + regenerated headers"],
        "assumptions": ["programs terminate within the model fuel (RUN_FUEL=20000 loop iterations)"],
    },
    "C04": {
        "runner": "C04",
        "replay_hint": "evaluate the printed program in a fresh environment (lisp.READ + lisp.EVAL), e.g. echo PROGRAM | go/bin/enc -impl",
        "technique": 'Coq model with explicit Panic outcome for every unchecked Go operation; theorems that the binder converts every panic; exhaustive malformed-special-form and builtin x operand enumeration vs the model; recover() as direct oracle',
        "level_text": 'Proved for all inputs: a builtin bound through the reflective binder never lets a panic out (arity gate, reflect assignability, the function body, and callbacks of higher-order builtins). For the special forms the model returns Panic exactly where Go would panic; that no such site is reachable is checked, not yet proved: every special-form head x every operand list up to length 3 (4 thorough) over a 23-element universe of malformed operands, every modelled builtin x 0..3 operands, random ASTs — implementation under recover() vs the model, 0 Panic outcomes on either side.',
        "level_note": "trusted: Coq kernel+VM, extraction (ExtrOcamlBasic), OCaml glue driver, Go harness, translator go/cmd/gen (headers through the repository's own reader); modelled not verified: Go runtime behaviour behind each checked primitive (index/slice/type assertion), reflect assignability, map iteration order (programs with effects inside map literals are not generated), metadata, printing of functions/atoms; the unbounded no-panic theorem for the special forms themselves is not proved in this revision (partial)",
        "trusted": ["hand-written model of mal.go/env.go/call.go/core.go (Eval.v, Env.v, Binder.v, Core.v); tie = correspondence + regenerated headers"],
        "assumptions": ["programs terminate within the model fuel (RUN_FUEL=20000 loop iterations)"],
    },
    "C08": {
        "runner": "C08",
        "vm_k": 3,
        "replay_hint": "evaluate the printed program in a fresh environment (lisp.READ + lisp.EVAL), e.g. echo PROGRAM | go/bin/enc -impl",
        "technique": 'Coq model of EVAL with an explicit host-stack depth parameter; theorems that tail positions continue at the same depth; numeric comparison of predicted vs observed lisp.EVAL frame counts for generated loop shapes',
        "level_text": "Theorems C08_*: in the transcribed EVAL the selected if branch, the last form of do and of a let body, the body of a called closure and the expansion of a macro call are evaluated at the same depth d (= number of lisp.EVAL frames), for all programs/states/fuel; and the general statement C08_tail_loops_use_no_stack: along ANY sequence of such hand-overs (tail_steps: any nesting of the tail constructs, any number of iterations, recursion spread over any number of functions) the evaluation of the original form equals the evaluation of the form reached at the SAME depth d. cond/and/or are the repository's own lisp text (regenerated), their constant depth is shown by computed examples and by the correspondence: for each generated loop shape (1-3 mutually recursive functions, nested tail contexts do/let/if/cond/and/or/fn-body) the model predicts the exact number of frames at n=0,1,2,10,120 and the harness counts them with runtime.Callers.",
        "level_note": "trusted: Coq kernel+VM, extraction (ExtrOcamlBasic), OCaml glue driver, Go harness, translator go/cmd/gen (headers through the repository's own reader); modelled not verified: Go runtime behaviour behind each checked primitive (index/slice/type assertion), reflect assignability, map iteration order (programs with effects inside map literals are not generated), metadata, printing of functions/atoms; the catch handler's tail position (the try form's `continue`) is not among the tail_step constructors",
        "trusted": ["hand-written model of mal.go/env.go/call.go/core.go (Eval.v, Env.v, Binder.v, Core.v); tie = correspondence + regenerated headers"],
        "assumptions": ["programs terminate within the model fuel (RUN_FUEL=20000 loop iterations)"],
    },
    "C12": {
        "runner": "C12",
        "replay_hint": "evaluate the printed program in a fresh environment (lisp.READ + lisp.EVAL), e.g. echo PROGRAM | go/bin/enc -impl",
        "technique": 'Coq theorem: quasiquote expansion = template substitution for every evaluator giving quote/cons/concat/vec their standard meaning; macroexpand lemmas; correspondence + generator-side substitution oracle',
        "level_text": "C12_quasiquote_is_template is proved for all templates of any nesting (induction on values), in the state monad, so it covers value, error and effect order; macro lemmas: operands handed over unevaluated, macroexpand result's head is not a macro, call = expansion then evaluation in the caller's scope, non-macro forms untouched. Tie: correspondence on generated templates/macros (user macros incl. recursive and nullary ones, cond/and/or/->/->>), with the expected value and trace computed by the generator outside the interpreter, and call vs (eval (macroexpand call)).",
        "level_note": "trusted: Coq kernel+VM, extraction (ExtrOcamlBasic), OCaml glue driver, Go harness, translator go/cmd/gen (headers through the repository's own reader); modelled not verified: Go runtime behaviour behind each checked primitive (index/slice/type assertion), reflect assignability, map iteration order (programs with effects inside map literals are not generated), metadata, printing of functions/atoms; that the real evaluator satisfies the standard-meaning hypotheses of the quasiquote theorem is checked by correspondence, not proved",
        "trusted": ["hand-written model of mal.go/env.go/call.go/core.go (Eval.v, Env.v, Binder.v, Core.v); tie = correspondence + regenerated headers"],
        "assumptions": ["programs terminate within the model fuel (RUN_FUEL=20000 loop iterations)"],
    },
    "C14": {
        "runner": "C14",
        "technique": "Coq proof (nested induction) that the transcription of Equal_Q equals structural equality, which is an equivalence; correspondence model vs Go on exhaustive+random pairs",
        "level_text": "Theorems C14_structural/refl/sym/trans/kinds_disjoint/list_vector_interchange hold for all data values of any nesting (kernel-checked, no axioms). They are about the hand-written model equalI of types.Equal_Q; the tie to the code is the correspondence check (every ordered pair of a 66-value universe + seeded random/near-equal/rebuilt pairs through the real `=` builtin vs the extracted model, cross-checked with vm_compute) and a model-free structural oracle with symmetry/transitivity probes.",
        "level_note": "trusted: Coq kernel+VM, extraction (ExtrOcamlBasic), OCaml glue driver, Go harness; modelled not verified: Go == on interfaces, reflect.TypeOf; a change to Equal_Q that is invisible on the generated pairs is not detected",
        "replay_hint": "evaluate the printed (= 'a 'b) form in a fresh environment (lisp.READ + lisp.EVAL)",
        "trusted": ["modelled rather than verified: Go's == on interface values (go_eq_same_type), reflect.TypeOf as a type tag"],
        "assumptions": ["Go map semantics (keys pairwise distinct) as the association-list invariant nodup_keys",
                        "metadata fields (Meta, Cursor) do not take part in equality (they do not in Equal_Q)"],
    },
}

PROPS["C09"] = {
    "runner": "C09", "race": True, "verdict_op": "linearizability check (LinCheck.atoms_linearizable)", "timeout": 3000, "vm_k": 12,
    "replay_hint": "the history is schedule-dependent: run go/bin/impl_race -tier quick -seed <seed> -out /tmp/o C09 (GORACE=halt_on_error=1 for races); hangs: evaluate the printed forms from the printed threads on one environment",
    "technique": "Coq small-step model of deref/reset!/swap! over one RWMutex-guarded cell whose per-thread programs are the action lists the translator regenerates from lib/concurrent/concurrent.go "
                 "(pinned by lemmas); invariant + linearizability theorem over ALL schedules, exclusion, quiescent-unlocked, deadlock freedom (refuted for self-deref), lock-discipline analysis proved sound; "
                 "correspondence = timed histories of the real atoms judged by the proved-sound-and-complete Coq linearizability checker, under the Go race detector, with hang watchdogs",
    "level_text": "Proved for any number of threads, any programs of deref / reset! / swap! with pure or failing update functions and EVERY schedule: the atom's value is the replay of the history of "
                  "linearisation points, each recorded result is the sequential atom's at that point, each thread's results are in program order those of its own operations (atomic, no lost update, consistent with real "
                  "time since a linearisation point is a step of the operation itself); a writer excludes all readers and writers; whenever no operation is in flight the lock is free (a failed update leaves the atom usable and unchanged); "
                  "some unfinished thread can always move unless an update function re-locks the atom being swapped. That last case is REFUTED in the model (C09_self_deref_refuted) and is the open known finding C09:swap-self-deref; the "
                  "opposite-nesting deadlock C09:nested-swap-abba is exhibited on the implementation only (the model has one atom: update functions touching OTHER atoms are checked on recorded histories, not proved: partial). "
                  "The tie to the code: (1) the translator's action lists for swap!, reset!, Atom.Deref, Atom.LispPrint have exactly the path sets (Paths.fn_paths: every branch, deferred unlocks expanded at returns) the model's steps follow, and every function of concurrent.go passes the lock-discipline analysis "
                  "(proved sound: every path reads Val under R/W, writes under W, never re-locks, returns balanced); (2) 400 (quick) / 6000 (thorough) recorded concurrent histories of the real atoms are linearizable per the Coq checker, 0 data races, no hang.",
    "level_note": "trusted: Coq kernel+VM, extraction, OCaml driver, Go harness (threads, logical clock, watchdogs), Go race detector, translator go/cmd/gen (go/ast walk emitting lock/field/channel actions); the Go scheduler decides which interleavings the recorded histories sample; sync.RWMutex semantics are modelled (writer exclusive, readers shared, blocking, non-reentrant)",
    "trusted": ["translator go/cmd/gen: action lists of concurrent.go and env.go (go/ast)", "modelled rather than verified: sync.RWMutex, goroutine scheduling as arbitrary interleaving of the listed actions, Apply as one atomic step that returns a value or fails",
                "Go race detector (vector clocks over the executions the harness produced)"],
    "assumptions": ["update functions are deterministic functions of the value they are given (or fail); an update function that updates the very atom being swapped is excluded by the property",
                    "histories use integer-valued atoms; nested operations only from a lower- to a higher-numbered atom (the opposite order is the known finding)"],
}
PROPS["C10"] = {
    "runner": "C10", "race": True, "verdict_op": "C10 clause checker (ConcFuture.fhist_ok)", "timeout": 3000, "vm_k": 12,
    "replay_hint": "the history is schedule-dependent: run go/bin/impl_race -tier quick -seed <seed> -out /tmp/o C10; the printed listing gives the future, every thread's calls with results and [invocation,response] instants",
    "technique": "Coq small-step model of the Future record (body goroutine, Deref's select with take/re-deposit, Cancel, IsDone/IsCancelled under f.mu) following the action lists regenerated from concurrent.go (pinned); "
                 "five invariants (mutex, ghost clock, outcome slot, critical sections, history) preserved by every step; the C10 clauses as theorems over timed histories for every schedule and every select resolution; "
                 "correspondence = timed histories of real futures judged by the extracted clause checker (proved to accept every model history), race detector, watchdogs, body-execution count",
    "level_text": "Proved for any number of callers, any programs of @f (with or without an expiring context) / future-done? / future-cancelled? / future-cancel, every schedule and every resolution of select: the body is evaluated at most once "
                  "(exactly once when finished); every deref that returns an outcome returns the one outcome the body produced; a status flag seen true is never seen false by a call invoked after that response; future-done? is true for every call invoked "
                  "after a deref returned the outcome; a cancel that returned true leaves the future cancelled for good, its body's context cancelled, and every later cancelled?/cancel says so; a cancel that returned false found it done and not cancelled and changed nothing "
                  "(never cancelled, context untouched); the flags are only accessed by the holder of f.mu (no data race). These hold on the tree WITH the fix 4129ba5 (before it the flags were unsynchronised and done was raised after delivery: genuine defect, fixed). "
                  "no hang (C10_never_stuck): in every reachable state where the body has not delivered or some caller has a call to make or finish, some thread can move, and a delivered outcome is never lost (it is in the slot or with the one reader re-depositing it). Not proved (partial): termination under a fair scheduler as such (only the absence of stuck states), and 'a cancel that finds the future completed and uncancelled returns false' in its strongest temporal form; both are also checked on the recorded histories (final patient deref under watchdog; cancel-true-needs-an-earlier-cancel oracle). "
                  "Tie: the path sets of NewFuture's goroutine, Deref, Cancel, IsDone, IsCancelled and the status builtins are the ones the model follows; lock discipline of every function; 400/4000 recorded histories accepted by the extracted checker, 0 races.",
    "level_note": "trusted: as C09; channels are modelled as one-slot buffers (capacity 1 as in NewFuture), select as nondeterministic choice among ready cases, context cancellation as a boolean the body's outcome may depend on",
    "trusted": ["translator go/cmd/gen (action lists)", "modelled rather than verified: buffered channels of capacity 1, select, context.WithCancel, sync.Mutex", "Go race detector"],
    "assumptions": ["the body is an arbitrary function of whether its context was cancelled by the time it finished", "callers' own deadlines are modelled as 'may time out at any moment once expiring'"],
}
PROPS["C11"] = {
    "runner": "C11", "race": True, "timeout": 3000, "vm_k": 6,
    "replay_hint": "evaluate the printed programs at the same time (one goroutine each, lisp.EVAL) on one environment built like go/h/env.go NewWorld plus the printed shared definitions; race reports: GORACE=halt_on_error=1 go/bin/impl_race ... C11",
    "technique": "lock-discipline analysis (Coq, proved sound over all paths incl. loops) run inside Coq on the action lists the translator regenerates from env/env.go; scope-isolation theorems on the evaluator model's heap of frames; "
                 "correspondence = batches of generator and hand-written programs evaluated concurrently on one environment vs the same programs alone (and vs the evaluator model), under the Go race detector",
    "level_text": "Proved: (race freedom of scopes) every function of env.go, on every path — any branch, any number of loop iterations — reads the bindings map only under the scope's read or write lock, writes it only under the write lock, never locks twice, "
                  "returns with its locks balanced; the *NT variants are only called with the lock held, the public entry points with it free (analysis proved sound; its verdict is recomputed on the regenerated action lists at every run); and from that, against an RWMutex that is exclusive for writers, shared for readers and blocking: any number of threads each running any path of any entry point of env.go on one scope, under every schedule, never have a pending write to the bindings map coexisting with another thread's pending read or write (C11_scope_race_free). "
                  "(isolation, evaluator model) a binding goes into exactly one frame; a new let/call/catch scope gets an identifier that is on no existing chain; a lookup reads the frames of its own outer chain only; hence a scope another evaluation allocates and binds in is invisible from every pre-existing scope. "
                  "Not proved (partial): the whole-program statement 'each evaluation returns what it returns alone' for the concurrent evaluator (the model is sequential; goroutine interleaving of EVAL is not modelled) — decided on executions: 80/700 batches of 2-8 programs "
                  "(C01-generator programs with per-thread names; shapes sharing LOCAL names, catch variables, gensym temporaries, memoize, own atoms/futures, futures reading their enclosing let/parameter scope while the parent defines into it) give the solo result and trace, the generator programs also the model's prediction; 0 data races. "
                  "The debugger globals (skip/outing) are process-wide and unsynchronised but only touched when a Stepper is installed (never in concurrent use here): noted, not checked.",
    "level_note": "trusted: as C09; data-race freedom on executions is the race detector's verdict on the interleavings the Go scheduler produced; the discipline analysis covers env.go (and concurrent.go) only, accesses to other shared structures (types, call registry) rely on the race detector",
    "trusted": ["translator go/cmd/gen (action lists of env.go)", "Go race detector", "modelled rather than verified: sync.RWMutex; the evaluator's own goroutine-local state (Go stack) is private by construction of Go"],
    "assumptions": ["programs write global names of their own and only read shared globals (as the property states)"],
}

PROPS["C07"] = {
    "runner": "C07", "timeout": 3000, "vm_k": 8,
    "replay_hint": "exact cases: evaluate the printed program with lisp.EVAL under context.WithCancel, (cancel!) being a builtin that calls the cancel function (go/h/env.go), compare result and (trace! ..) order; "
                   "timed cases: evaluate the printed source under the printed deadline / outside cancel and measure the time between the end of the context and the return of lisp.EVAL",
    "technique": "Coq evaluator model with the context poll at the top of every loop iteration (eval_c shares every other line, eval_step, with the context-free evaluator) and a cancelled flag set by the harness builtin (cancel!); "
                 "theorems: every evaluation started after cancellation returns the timeout error at once whatever the form, bodies / catch handlers / finally bodies cannot start anything, whole-program instances for arbitrary remaining forms; "
                 "correspondence on result and ordered trace for generated and self-cancelling never-ending programs; wall-clock bound measured on the implementation (direct oracle)",
    "level_text": "Proved (model): once the context is cancelled, every evaluation that is started — a loop iteration, a recursive call, a macro body, a handler — returns the timeout error at once and leaves the state untouched, with one unit of fuel, "
                  "i.e. independently of how long the form would run; a live context changes nothing else (same eval_step); the pending frames cannot start work: a do/function/finally body stops at its first form, a catch handler is entered (variable bound) "
                  "but ends at its first form without tracing, a finally body runs nothing and keeps the outcome; for ARBITRARY remaining forms (do (cancel!) REST), a try whose body cancels (handler and finally given arbitrary forms) and the "
                  "one-builtin-application leftover are computed symbolically. Not proved (partial): the general induction 'work after cancellation is bounded by the number of pending frames' over all evaluation contexts, and anything about wall-clock time, "
                  "timers, context-aware sleep and future deref, the 80% budget split of try — those live in the Go runtime and are MEASURED: 13 never-ending / blocking shapes (tail, non-tail, tree and macro recursion, sleep, deref of sleeping and looping futures, "
                  "an atom read behind a future holding it, handlers and finally bodies that loop or sleep again, nested try) under a deadline or an outside cancel at a random instant must return within 400 ms (observed maximum on the unchanged tree: tens of ms), "
                  "with a timeout error where nothing can catch it, the handler's trace where the 80% budget must let it run, and futures must stop with their creator. "
                  "Tie: 500/12000 generated programs with (cancel!) at random places and self-cancelling never-ending programs: result and ordered trace equal the model's (this is what pins the poll to EVERY iteration: a poll every k-th turn, or only on some paths, shifts the trace).",
    "level_note": "trusted: Coq kernel+VM, extraction, OCaml driver, Go harness (cancel! builtin, timers, watchdogs); wall-clock measurements depend on machine load (bound 400 ms vs 3 s watchdog); sleep, Future.Deref and context derivation are not modelled in Coq",
    "trusted": ["hand-written evaluator model (as C01/C03) + the poll; modelled rather than verified: context.Context as one boolean", "wall-clock oracle: Go timers and scheduler"],
    "assumptions": ["builtins are short (small data), as the property states", "the context is cancelled from inside the program in the exact cases (the instant is then a program point), from a timer in the timed cases"],
}

NOT_CLAIMED = {p: "machinery for this property is not built yet in this revision (see DESIGN.md §9 order of work)" for p in
               ["C%02d" % i for i in range(1, 21)] if p not in PROPS}
