(** C02: no builtin changes an existing value.  Frame property of the arena machine:
    every step leaves all previously allocated objects untouched, whatever the growth
    policy of append and however much spare capacity the argument arrays have. *)
From Lisp Require Import Base Value Core Arena.
Local Open Scope nat_scope.
Local Arguments alloc : simpl never.
Local Arguments append_fresh : simpl never.
Local Arguments go_append : simpl never.
Local Arguments conj_vec : simpl never.
Local Arguments conj_list : simpl never.
Local Arguments concat_seqs : simpl never.
Local Arguments cons_seq : simpl never.
Local Arguments fresh_list : simpl never.
Local Arguments assoc_vec : simpl never.
Local Arguments assoc_map : simpl never.
Local Arguments dissoc_map : simpl never.
Local Arguments merge_maps : simpl never.

Lemma firstn_In {A} n (l : list A) x : In x (firstn n l) -> In x l.
Proof. revert l; induction n; intros [|y l]; simpl; try tauto. intros [?|?]; auto. Qed.
Lemma in_skipn {A} n (l : list A) x : In x (skipn n l) -> In x l.
Proof. revert l; induction n; intros [|y l]; simpl; try tauto. intros H; right; auto. Qed.

Definition agree (n : nat) (A A' : arena) : Prop := forall i, i < n -> nth_error A' i = nth_error A i.

Lemma agree_refl n A : agree n A A. Proof. intros i _; reflexivity. Qed.
Lemma agree_trans n A B C : agree n A B -> agree n B C -> agree n A C.
Proof. intros H1 H2 i Hi. rewrite H2, H1; auto. Qed.
Lemma agree_le n m A B : n <= m -> agree m A B -> agree n A B.
Proof. intros Hle H i Hi. apply H; lia. Qed.

Lemma older_le i j h : i <= j -> older i h -> older j h.
Proof. destruct h; simpl; auto; lia. Qed.

Lemma Forall_older_le i j l : i <= j -> Forall (older i) l -> Forall (older j) l.
Proof. intros Hle H. eapply Forall_impl; [|exact H]. intros a; apply older_le; auto. Qed.

(** reading a value only looks at objects older than the value *)
Lemma abs_agree f : forall n A A' h,
  arena_ok A -> agree n A A' -> older n h -> abs f A' h = abs f A h.
Proof.
  induction f as [|f IH]; intros n A A' h Hok Hag Hold; simpl; auto.
  destruct h as [v|isvec id off len|id|id]; simpl in Hold; auto.
  - rewrite (Hag id Hold). destruct (nth_error A id) as [[cells|kvs|ks]|] eqn:E; auto.
    assert (Hc : Forall (older id) cells) by (apply (Hok id _ E)).
    assert (Heq : map (abs f A') (firstn len (skipn off cells)) = map (abs f A) (firstn len (skipn off cells))).
    { apply map_ext_in. intros a Ha. apply (IH n); auto.
      apply firstn_In, in_skipn in Ha. rewrite Forall_forall in Hc. eapply older_le; [|apply Hc, Ha]. lia.
      Unshelve. }
    now rewrite Heq.
  - rewrite (Hag id Hold). destruct (nth_error A id) as [[cells|kvs|ks]|] eqn:E; auto.
    assert (Hc : Forall (fun kv => older id (snd kv)) kvs) by (apply (Hok id _ E)).
    f_equal. apply map_ext_in. intros [k v] Hin. f_equal. apply (IH n); auto.
    rewrite Forall_forall in Hc. eapply older_le; [|apply (Hc _ Hin)]. lia.
  - now rewrite (Hag id Hold).
Qed.

(** ---- primitives ---- *)
Lemma nth_error_app_old {A} (l : list A) x i : i < length l -> nth_error (l ++ [x]) i = nth_error l i.
Proof. intros H. now apply nth_error_app1. Qed.

Lemma alloc_spec A o : obj_older (length A) o -> arena_ok A ->
  let '(A', id) := alloc A o in
  id = length A /\ length A' = S (length A) /\ agree (length A) A A' /\ arena_ok A' /\ nth_error A' id = Some o.
Proof.
  intros Ho Hok. unfold alloc.
  split; [reflexivity|]. split; [rewrite app_length; simpl; lia|].
  split; [intros i Hi; now apply nth_error_app_old|]. split.
  - intros i o' Hn. destruct (Nat.lt_ge_cases i (length A)) as [Hlt|Hge].
    + rewrite nth_error_app_old in Hn by auto. exact (Hok i o' Hn).
    + assert (i = length A).
      { assert (Hi : i < length (A ++ [o])) by (apply nth_error_Some; congruence). rewrite app_length in Hi; simpl in Hi; lia. }
      subst i. rewrite nth_error_app2, Nat.sub_diag in Hn by lia. simpl in Hn. inversion Hn; subst. exact Ho.
  - rewrite nth_error_app2, Nat.sub_diag by lia. reflexivity.
Qed.

Lemma set_obj_length A i o : length (set_obj A i o) = length A.
Proof. revert i; induction A as [|x A IH]; intros [|i]; simpl; auto. Qed.

Lemma set_obj_other A i o j : j <> i -> nth_error (set_obj A i o) j = nth_error A j.
Proof.
  revert i j; induction A as [|x A IH]; intros [|i] [|j] H; simpl; auto; try congruence.
Qed.

Lemma set_obj_same A i o : i < length A -> nth_error (set_obj A i o) i = Some o.
Proof. revert i; induction A as [|x A IH]; intros [|i] H; simpl in *; auto; try lia. apply IH; lia. Qed.

Lemma set_obj_ok A i o : arena_ok A -> obj_older i o -> arena_ok (set_obj A i o).
Proof.
  intros Hok Ho j o' Hn. destruct (Nat.eq_dec j i) as [->|Hne].
  - destruct (Nat.lt_ge_cases i (length A)) as [Hlt|Hge].
    + rewrite set_obj_same in Hn by auto. inversion Hn; subst; auto.
    + assert (j' : nth_error (set_obj A i o) i = None) by (apply nth_error_None; rewrite set_obj_length; lia). congruence.
  - rewrite set_obj_other in Hn by auto. exact (Hok j o' Hn).
Qed.

Lemma Forall_pad i cells cap : Forall (older i) cells -> Forall (older i) (pad cells cap).
Proof.
  intros H. unfold pad. apply Forall_app. split; auto.
  apply Forall_forall. intros x Hx. apply repeat_spec in Hx. subst. exact I.
Qed.

Lemma Forall_write_at i : forall cells pos xs,
  Forall (older i) cells -> Forall (older i) xs -> Forall (older i) (write_at cells pos xs).
Proof.
  intros cells pos; revert cells; induction pos as [|p IH]; intros cells xs Hc Hx; simpl.
  - apply Forall_app. split; auto. apply Forall_forall. intros x Hin. apply in_skipn in Hin.
    rewrite Forall_forall in Hc; auto.
  - destruct cells as [|c r]; auto. inversion Hc; subst. constructor; auto.
Qed.

Lemma window_older A id off len : arena_ok A -> Forall (older id) (window A id off len).
Proof.
  intros Hok. unfold window. destruct (nth_error A id) as [[cells|?|?]|] eqn:E; auto.
  pose proof (Hok id _ E) as Hc. simpl in Hc. apply Forall_forall. intros x Hx.
  apply firstn_In, in_skipn in Hx. rewrite Forall_forall in Hc; auto.
Qed.

(** the frame of one append: it may write in place, but only into the array it is given *)
Definition post (n0 : nat) (A A' : arena) (id' : nat) : Prop :=
  agree n0 A A' /\ length A <= length A' /\ arena_ok A' /\ n0 <= id' /\ id' < length A'.

Lemma go_append_spec grow A n0 id off len xs :
  arena_ok A -> n0 <= id -> id < length A -> Forall (older n0) xs ->
  forall A' id' o' l', go_append grow A id off len xs = (A', (id', o', l')) -> post n0 A A' id'.
Proof.
  intros Hok Hn0 Hid Hxs A' id' o' l'. unfold go_append.
  destruct (nth_error A id) as [[cells|?|?]|] eqn:E.
  2-4: intros [= <- <- <- <-]; repeat split; auto; apply agree_refl.
  pose proof (Hok id _ E) as Hc. simpl in Hc.
  destruct (Nat.leb (len + length xs) (length cells - off)).
  - intros [= <- <- <- <-]. repeat split; auto.
    + intros i Hi. apply set_obj_other. lia.
    + rewrite set_obj_length; lia.
    + apply set_obj_ok; auto. simpl. apply Forall_write_at; auto. eapply Forall_older_le; [|exact Hxs]. lia.
    + rewrite set_obj_length; lia.
  - set (o := OArr _). intros H.
    assert (Ho : obj_older (length A) o).
    { unfold o; simpl. apply Forall_pad, Forall_app. split.
      - apply Forall_forall. intros x Hx. apply firstn_In, in_skipn in Hx.
        rewrite Forall_forall in Hc. eapply older_le; [|apply Hc, Hx]. lia.
      - eapply Forall_older_le; [|exact Hxs]. lia. }
    pose proof (alloc_spec A o Ho Hok) as Hs. unfold alloc in *. inversion H; subst.
    destruct Hs as (_ & Hl & Hag & Hok' & _). repeat split; auto; try lia.
    eapply agree_le; [|exact Hag]. lia.
Qed.

Lemma append_fresh_spec grow A xs :
  arena_ok A -> Forall (older (length A)) xs ->
  forall A' id' o' l', append_fresh grow A xs = (A', (id', o', l')) ->
  post (length A) A A' id' /\ id' = length A.
Proof.
  intros Hok Hxs A' id' o' l'. unfold append_fresh. set (o := OArr _).
  assert (Ho : obj_older (length A) o) by (unfold o; simpl; apply Forall_pad; auto).
  pose proof (alloc_spec A o Ho Hok) as Hs. unfold alloc in *. intros H; inversion H; subst.
  destruct Hs as (_ & Hl & Hag & Hok' & _). repeat split; auto; lia.
Qed.

Local Opaque alloc append_fresh go_append.

(** ---- the frame of a whole step ---- *)
Definition frame (A A' : arena) (h : hval) : Prop :=
  agree (length A) A A' /\ length A <= length A' /\ arena_ok A' /\ older (length A') h.

Lemma frame_same A h : arena_ok A -> older (length A) h -> frame A A h.
Proof. intros; repeat split; auto; apply agree_refl. Qed.

Lemma window_older_len A id off len : arena_ok A -> id < length A -> Forall (older (length A)) (window A id off len).
Proof. intros Hok Hid. eapply Forall_older_le; [|apply window_older; auto]. lia. Qed.

Section Frames.
  Variable grow : nat -> nat -> nat.

  Lemma conj_vec_frame A id off len xs :
    arena_ok A -> id < length A -> Forall (older (length A)) xs ->
    forall A' h, conj_vec grow A id off len xs = (A', h) -> frame A A' h.
  Proof.
    intros Hok Hid Hxs A' h. unfold conj_vec.
    destruct (append_fresh grow A (window A id off len)) as [A1 [[i1 o1] l1]] eqn:E1.
    destruct (append_fresh_spec grow A _ Hok (window_older_len A id off len Hok Hid) _ _ _ _ E1) as [(Hag1 & Hl1 & Hok1 & Hn1 & Hi1) ->].
    destruct (go_append grow A1 (length A) o1 l1 xs) as [A2 [[i2 o2] l2]] eqn:E2.
    destruct (go_append_spec grow A1 (length A) (length A) o1 l1 xs Hok1 (le_n _) Hi1 Hxs _ _ _ _ E2) as (Hag2 & Hl2 & Hok2 & Hn2 & Hi2).
    intros [= <- <-]. repeat split; auto; try lia.
    - eapply agree_trans; eauto.
  Qed.

  Lemma conj_list_frame A id off len xs :
    arena_ok A -> id < length A -> Forall (older (length A)) xs ->
    forall A' h, conj_list grow A id off len xs = (A', h) -> frame A A' h.
  Proof.
    intros Hok Hid Hxs A' h. unfold conj_list.
    assert (Hr : Forall (older (length A)) (rev xs)) by (apply Forall_rev; auto).
    destruct (append_fresh grow A (rev xs)) as [A1 [[i1 o1] l1]] eqn:E1.
    destruct (append_fresh_spec grow A _ Hok Hr _ _ _ _ E1) as [(Hag1 & Hl1 & Hok1 & Hn1 & Hi1) ->].
    destruct (go_append grow A1 (length A) o1 l1 (window A id off len)) as [A2 [[i2 o2] l2]] eqn:E2.
    destruct (go_append_spec grow A1 (length A) (length A) o1 l1 _ Hok1 (le_n _) Hi1 (window_older_len A id off len Hok Hid) _ _ _ _ E2) as (Hag2 & Hl2 & Hok2 & Hn2 & Hi2).
    intros [= <- <-]. repeat split; auto; try lia. eapply agree_trans; eauto.
  Qed.

  Lemma cons_seq_frame A x id off len :
    arena_ok A -> id < length A -> older (length A) x ->
    forall A' h, cons_seq grow A x id off len = (A', h) -> frame A A' h.
  Proof.
    intros Hok Hid Hx A' h. unfold cons_seq.
    destruct (append_fresh (fun _ n => n) A [x]) as [A1 [[i1 o1] l1]] eqn:E1.
    destruct (append_fresh_spec _ A _ Hok (Forall_cons _ Hx (Forall_nil _)) _ _ _ _ E1) as [(Hag1 & Hl1 & Hok1 & Hn1 & Hi1) ->].
    destruct (go_append grow A1 (length A) o1 l1 (window A id off len)) as [A2 [[i2 o2] l2]] eqn:E2.
    destruct (go_append_spec grow A1 (length A) (length A) o1 l1 _ Hok1 (le_n _) Hi1 (window_older_len A id off len Hok Hid) _ _ _ _ E2) as (Hag2 & Hl2 & Hok2 & Hn2 & Hi2).
    intros [= <- <-]. repeat split; auto; try lia. eapply agree_trans; eauto.
  Qed.

  Lemma concat_more_spec n0 : forall rest A i o l,
    arena_ok A -> n0 <= i -> i < length A ->
    (forall A1, agree n0 A A1 -> Forall (fun s => Forall (older n0) (window A1 (fst (fst s)) (snd (fst s)) (snd s))) rest) ->
    forall A' i' o' l', concat_more grow A i o l rest = (A', (i', o', l')) -> post n0 A A' i'.
  Proof.
    induction rest as [|[[id off] len] rest IH]; intros A i o l Hok Hn Hi Hw A' i' o' l'; simpl.
    - intros [= <- <- <- <-]. repeat split; auto; apply agree_refl.
    - destruct (go_append grow A i o l (window A id off len)) as [A1 [[i1 o1] l1]] eqn:E1.
      pose proof (Hw A (agree_refl _ _)) as Hw0. inversion Hw0 as [|? ? Hwin Hrest]; subst. simpl in Hwin.
      destruct (go_append_spec grow A n0 i o l _ Hok Hn Hi Hwin _ _ _ _ E1) as (Hag1 & Hl1 & Hok1 & Hn1 & Hi1).
      intros H. destruct (IH A1 i1 o1 l1 Hok1 Hn1 Hi1) with (A' := A') (i' := i') (o' := o') (l' := l') as (Hag2 & Hl2 & Hok2 & Hn2 & Hi2); auto.
      + intros A2 Hag2. pose proof (Hw A2 (agree_trans _ _ _ _ Hag1 Hag2)) as Hw2. inversion Hw2; auto.
      + repeat split; auto; try lia. eapply agree_trans; eauto.
  Qed.

  Lemma window_agree n A A1 id off len : agree n A A1 -> id < n -> window A1 id off len = window A id off len.
  Proof. intros Hag Hid. unfold window. now rewrite (Hag id Hid). Qed.

  Lemma concat_seqs_frame A first rest :
    arena_ok A -> fst (fst first) < length A -> Forall (fun s => fst (fst s) < length A) rest ->
    forall A' h, concat_seqs grow A first rest = (A', h) -> frame A A' h.
  Proof.
    intros Hok Hid Hrest A' h. unfold concat_seqs. destruct first as [[id off] len]. simpl in Hid.
    destruct (append_fresh grow A (window A id off len)) as [A1 [[i1 o1] l1]] eqn:E1.
    destruct (append_fresh_spec grow A _ Hok (window_older_len A id off len Hok Hid) _ _ _ _ E1) as [(Hag1 & Hl1 & Hok1 & Hn1 & Hi1) ->].
    destruct (concat_more grow A1 (length A) o1 l1 rest) as [A2 [[i2 o2] l2]] eqn:E2.
    destruct (concat_more_spec (length A) rest A1 (length A) o1 l1 Hok1 (le_n _) Hi1) with (A' := A2) (i' := i2) (o' := o2) (l' := l2) as (Hag2 & Hl2 & Hok2 & Hn2 & Hi2); auto.
    { intros A3 Hag3. apply Forall_forall. intros [[id' off'] len'] Hin. simpl.
      rewrite Forall_forall in Hrest. pose proof (Hrest _ Hin) as Hlt. simpl in Hlt.
      rewrite (window_agree (length A) A A3); [apply window_older_len; auto | eapply agree_trans; eauto | auto]. }
    intros [= <- <-]. repeat split; auto; try lia. eapply agree_trans; eauto.
  Qed.

  Lemma fresh_list_frame A cells :
    arena_ok A -> Forall (older (length A)) cells ->
    forall A' h, fresh_list grow A cells = (A', h) -> frame A A' h.
  Proof.
    intros Hok Hc A' h. unfold fresh_list.
    destruct (append_fresh grow A cells) as [A1 [[i1 o1] l1]] eqn:E1.
    destruct (append_fresh_spec grow A _ Hok Hc _ _ _ _ E1) as [(Hag1 & Hl1 & Hok1 & Hn1 & Hi1) ->].
    intros [= <- <-]. repeat split; auto.
  Qed.

  Lemma assoc_vec_frame A id off len idx v :
    arena_ok A -> id < length A -> older (length A) v ->
    forall A' h, assoc_vec grow A id off len idx v = (A', h) -> frame A A' h.
  Proof.
    intros Hok Hid Hv A' h. unfold assoc_vec. destruct (Nat.ltb idx len).
    2: { intros [= <- <-]. apply frame_same; simpl; auto. }
    destruct (append_fresh grow A (window A id off len)) as [A1 [[i1 o1] l1]] eqn:E1.
    destruct (append_fresh_spec grow A _ Hok (window_older_len A id off len Hok Hid) _ _ _ _ E1) as [(Hag1 & Hl1 & Hok1 & Hn1 & Hi1) ->].
    destruct (nth_error A1 (length A)) as [[cells|?|?]|] eqn:E.
    2-4: intros [= <- <-]; repeat split; simpl; auto.
    intros [= <- <-]. pose proof (Hok1 _ _ E) as Hc. simpl in Hc. repeat split.
    - intros i Hi. rewrite set_obj_other by lia. auto.
    - rewrite set_obj_length; lia.
    - apply set_obj_ok; auto. simpl. apply Forall_write_at; auto.
    - simpl. rewrite set_obj_length. lia.
  Qed.

  Lemma map_of_older A id : arena_ok A -> id < length A -> Forall (fun kv => older (length A) (snd kv)) (map_of A id).
  Proof.
    intros Hok Hid. unfold map_of. destruct (nth_error A id) as [[?|kvs|?]|] eqn:E; auto.
    pose proof (Hok _ _ E) as Hc. simpl in Hc. eapply Forall_impl; [|exact Hc]. intros a; apply older_le; lia.
  Qed.

  Lemma Forall_aset (P : hval -> Prop) k v (m : list (str * hval)) :
    P v -> Forall (fun kv => P (snd kv)) m -> Forall (fun kv => P (snd kv)) (aset k v m).
  Proof.
    intros Hv. induction m as [|[k2 v2] m IH]; simpl; intros H.
    - constructor; auto.
    - inversion H; subst. destruct (str_eqb k k2); constructor; auto.
  Qed.

  Lemma Forall_adel (P : hval -> Prop) k (m : list (str * hval)) :
    Forall (fun kv => P (snd kv)) m -> Forall (fun kv => P (snd kv)) (adel k m).
  Proof.
    induction m as [|[k2 v2] m IH]; simpl; intros H; auto.
    inversion H; subst. destruct (str_eqb k k2); auto.
  Qed.

  Lemma alloc_map_frame A kvs :
    arena_ok A -> Forall (fun kv => older (length A) (snd kv)) kvs ->
    forall A' nid, alloc A (OMap kvs) = (A', nid) -> frame A A' (HMap nid).
  Proof.
    intros Hok Hk A' nid H. pose proof (alloc_spec A (OMap kvs) Hk Hok) as Hs. rewrite H in Hs.
    destruct Hs as (-> & Hl & Hag & Hok' & _). repeat split; auto; simpl; lia.
  Qed.

  Lemma assoc_map_frame A id k v :
    arena_ok A -> id < length A -> older (length A) v ->
    forall A' h, assoc_map A id k v = (A', h) -> frame A A' h.
  Proof.
    intros Hok Hid Hv A' h. unfold assoc_map.
    destruct (alloc A _) as [A1 nid] eqn:E. intros [= <- <-].
    apply (alloc_map_frame A _ Hok) with (2 := E). apply Forall_aset; auto. apply map_of_older; auto.
  Qed.

  Lemma dissoc_map_frame A id ks :
    arena_ok A -> id < length A ->
    forall A' h, dissoc_map A id ks = (A', h) -> frame A A' h.
  Proof.
    intros Hok Hid A' h. unfold dissoc_map.
    destruct (alloc A _) as [A1 nid] eqn:E. intros [= <- <-].
    apply (alloc_map_frame A _ Hok) with (2 := E).
    assert (forall m, Forall (fun kv => older (length A) (snd kv)) m ->
                      Forall (fun kv => older (length A) (snd kv)) (fold_left (fun m k => adel k m) ks m)) as Hf.
    { clear E. induction ks as [|k ks IH]; simpl; auto. intros m Hm. apply IH. now apply Forall_adel. }
    apply Hf, map_of_older; auto.
  Qed.

  Lemma merge_maps_frame A id0 id1 :
    arena_ok A -> id0 < length A -> id1 < length A ->
    forall A' h, merge_maps A id0 id1 = (A', h) -> frame A A' h.
  Proof.
    intros Hok H0 H1 A' h. unfold merge_maps.
    destruct (alloc A _) as [A1 nid] eqn:E. intros [= <- <-].
    apply (alloc_map_frame A _ Hok) with (2 := E).
    assert (forall m1 m0, Forall (fun kv => older (length A) (snd kv)) m1 -> Forall (fun kv => older (length A) (snd kv)) m0 ->
                          Forall (fun kv => older (length A) (snd kv)) (fold_left (fun acc kv => aset (fst kv) (snd kv) acc) m1 m0)) as Hf.
    { induction m1 as [|[k v] m1 IH]; simpl; auto. intros m0 Hm1 Hm0. inversion Hm1; subst. apply IH; auto. apply Forall_aset; auto. }
    apply Hf; apply map_of_older; auto.
  Qed.

  (** registers *)
  Definition regs_ok (A : arena) (regs : list hval) : Prop := Forall (older (length A)) regs.

  Lemma nth_reg_older A regs r : regs_ok A regs -> older (length A) (nth r regs NILCELL).
  Proof.
    intros H. destruct (Nat.lt_ge_cases r (length regs)) as [Hlt|Hge].
    - unfold regs_ok in H. rewrite Forall_forall in H. apply H, nth_In; auto.
    - rewrite nth_overflow; simpl; auto.
  Qed.

  Lemma operand_older A regs x : regs_ok A regs -> older (length A) (operand regs x).
  Proof. intros H. destruct x; simpl; auto. now apply nth_reg_older. Qed.

  Lemma operands_older A regs xs : regs_ok A regs -> Forall (older (length A)) (map (operand regs) xs).
  Proof. intros H. apply Forall_forall. intros h Hin. apply in_map_iff in Hin as [x [<- _]]. now apply operand_older. Qed.

  (** THE STEP THEOREM: whatever the operation, its arguments and the growth policy, every
      object that existed before the step is untouched, and the result is well-formed *)
  Theorem run_op_frame A regs o :
    arena_ok A -> regs_ok A regs ->
    forall A' h, run_op grow A regs o = (A', h) -> frame A A' h.
  Proof.
    intros Hok Hregs A' h.
    assert (HR : forall r, older (length A) (nth r regs NILCELL)) by (intros; now apply nth_reg_older).
    assert (Hsame : forall h0, older (length A) h0 -> (A, h0) = (A', h) -> frame A A' h).
    { intros h0 Hh [= <- <-]. now apply frame_same. }
    destruct o; simpl.
    - (* OpLit *)
      destruct (append_fresh grow A (map (operand regs) cells)) as [A1 [[i1 o1] l1]] eqn:E1.
      destruct (append_fresh_spec grow A (map (operand regs) cells) Hok (operands_older A regs cells Hregs) _ _ _ _ E1) as [(Hag1 & Hl1 & Hok1 & Hn1 & Hi1) ->].
      intros [= <- <-]. repeat split; auto; simpl; auto.
    - (* OpLitMap *)
      destruct (alloc A _) as [A1 nid] eqn:E. intros [= <- <-]. apply (alloc_map_frame A _ Hok) with (2 := E).
      apply Forall_forall. intros [k v] Hin. apply in_map_iff in Hin as [[k' x] [[= <- <-] _]]. simpl. now apply operand_older.
    - (* OpConj *)
      pose proof (HR r) as Hr. destruct (nth r regs NILCELL) as [?|[|] id off len|?|?]; simpl in Hr; try (solve [intros Heq; eapply Hsame; [|exact Heq]; simpl; auto]).
      + apply conj_vec_frame; auto. now apply operands_older.
      + apply conj_list_frame; auto. now apply operands_older.
    - (* OpConcat *)
      pose proof (HR r) as Hr. destruct (nth r regs NILCELL) as [?|b id off len|?|?]; simpl in Hr |- *; try (solve [intros Heq; eapply Hsame; [|exact Heq]; simpl; auto]).
      apply concat_seqs_frame; auto.
      induction rs as [|r' rs IHrs]; simpl; auto.
      pose proof (HR r') as Hr'. destruct (nth r' regs NILCELL) as [?|b' id' off' len'|?|?]; simpl in Hr' |- *; auto.
    - (* OpCons *)
      pose proof (HR r) as Hr. destruct (nth r regs NILCELL) as [?|b id off len|?|?]; simpl in Hr |- *; try (solve [intros Heq; eapply Hsame; [|exact Heq]; simpl; auto]).
      apply cons_seq_frame; auto. now apply operand_older.
    - (* OpRest *)
      pose proof (HR r) as Hr. destruct (nth r regs NILCELL) as [?|b id off len|?|?]; simpl in Hr |- *; try (solve [intros Heq; eapply Hsame; [|exact Heq]; simpl; auto]).
      unfold rest_seq. intros Heq. eapply Hsame; [|exact Heq]. destruct (Nat.eqb len 0); simpl; auto.
    - (* OpVec *)
      pose proof (HR r) as Hr. destruct (nth r regs NILCELL) as [?|b id off len|?|?]; simpl in Hr |- *; try (solve [intros Heq; eapply Hsame; [|exact Heq]; simpl; auto]).
    - (* OpSeq *)
      pose proof (HR r) as Hr. destruct (nth r regs NILCELL) as [?|b id off len|?|?]; simpl in Hr |- *; try (solve [intros Heq; eapply Hsame; [|exact Heq]; simpl; auto]).
    - (* OpWithMeta *) unfold with_meta_h. intros Heq. eapply Hsame; [|exact Heq]. apply HR.
    - (* OpSubvec *)
      pose proof (HR r) as Hr. destruct (nth r regs NILCELL) as [?|[|] id off len|?|?]; simpl in Hr |- *; try (solve [intros Heq; eapply Hsame; [|exact Heq]; simpl; auto]).
      unfold subvec_seq. intros Heq. eapply Hsame; [|exact Heq]. destruct (_ && _); simpl; auto.
    - (* OpTake *)
      pose proof (HR r) as Hr. destruct (nth r regs NILCELL) as [?|b id off len|?|?]; simpl in Hr |- *; try (solve [intros Heq; eapply Hsame; [|exact Heq]; simpl; auto]).
      apply fresh_list_frame; auto. apply Forall_forall. intros x Hx. apply firstn_In in Hx.
      pose proof (window_older_len A id off len Hok Hr) as Hw. rewrite Forall_forall in Hw; auto.
    - (* OpDrop *)
      pose proof (HR r) as Hr. destruct (nth r regs NILCELL) as [?|b id off len|?|?]; simpl in Hr |- *; try (solve [intros Heq; eapply Hsame; [|exact Heq]; simpl; auto]).
      apply fresh_list_frame; auto. apply Forall_forall. intros x Hx. apply in_skipn in Hx.
      pose proof (window_older_len A id off len Hok Hr) as Hw. rewrite Forall_forall in Hw; auto.
    - (* OpAssoc *)
      pose proof (HR r) as Hr. destruct (nth r regs NILCELL) as [?|b id off len|id|?]; simpl in Hr |- *; try (solve [intros Heq; eapply Hsame; [|exact Heq]; simpl; auto]).
      apply assoc_map_frame; auto. now apply operand_older.
    - (* OpAssocVec *)
      pose proof (HR r) as Hr. destruct (nth r regs NILCELL) as [?|[|] id off len|?|?]; simpl in Hr |- *; try (solve [intros Heq; eapply Hsame; [|exact Heq]; simpl; auto]).
      apply assoc_vec_frame; auto. now apply operand_older.
    - (* OpDissoc *)
      pose proof (HR r) as Hr. destruct (nth r regs NILCELL) as [?|b id off len|id|?]; simpl in Hr |- *; try (solve [intros Heq; eapply Hsame; [|exact Heq]; simpl; auto]).
      apply dissoc_map_frame; auto.
    - (* OpMerge *)
      pose proof (HR r1) as Hr1. pose proof (HR r2) as Hr2.
      destruct (nth r1 regs NILCELL) as [?|? ? ? ?|id1|?]; simpl in Hr1 |- *; try (solve [intros Heq; eapply Hsame; [|exact Heq]; simpl; auto]).
      destruct (nth r2 regs NILCELL) as [?|? ? ? ?|id2|?]; simpl in Hr2 |- *; try (solve [intros Heq; eapply Hsame; [|exact Heq]; simpl; auto]).
      apply merge_maps_frame; auto.
  Qed.

  (** THE HISTORY THEOREM: a value, once bound, reads the same after any number of further
      operations of any kind — for every growth policy, every capacity layout, any fan-out *)
  Theorem history_immutable : forall ops A regs A' regs',
    arena_ok A -> regs_ok A regs ->
    run_history grow A regs ops = (A', regs') ->
    (forall f r, In r regs -> abs f A' r = abs f A r) /\ arena_ok A' /\ regs_ok A' regs' /\
    (exists more, regs' = regs ++ more).
  Proof.
    induction ops as [|o ops IH]; intros A regs A' regs' Hok Hregs; simpl.
    - intros [= <- <-]. repeat split; auto. exists []. now rewrite app_nil_r.
    - destruct (run_op grow A regs o) as [A1 h] eqn:E.
      destruct (run_op_frame A regs o Hok Hregs A1 h E) as (Hag & Hl & Hok1 & Hh).
      assert (Hregs1 : regs_ok A1 (regs ++ [h])).
      { apply Forall_app. split; [|constructor; auto]. eapply Forall_older_le; [|exact Hregs]. auto. }
      intros H. destruct (IH A1 (regs ++ [h]) A' regs' Hok1 Hregs1 H) as (Habs & Hok' & Hregs' & [more Hmore]).
      repeat split; auto.
      + intros f r Hin. rewrite Habs by (apply in_or_app; now left).
        apply abs_agree with (n := length A); auto.
        unfold regs_ok in Hregs. rewrite Forall_forall in Hregs. auto.
      + exists (h :: more). rewrite Hmore, <- app_assoc. reflexivity.
  Qed.

  (** two values derived from a common ancestor never influence each other: after any further
      history both still read as they did when they were bound *)
  Corollary derived_values_independent ops1 ops2 A regs A1 regs1 A2 regs2 :
    arena_ok A -> regs_ok A regs ->
    run_history grow A regs ops1 = (A1, regs1) -> run_history grow A1 regs1 ops2 = (A2, regs2) ->
    forall f r, In r regs1 -> abs f A2 r = abs f A1 r.
  Proof.
    intros Hok Hregs H1 H2. destruct (history_immutable ops1 A regs A1 regs1 Hok Hregs H1) as (_ & Hok1 & Hregs1 & _).
    destruct (history_immutable ops2 A1 regs1 A2 regs2 Hok1 Hregs1 H2) as (Habs & _). exact Habs.
  Qed.
End Frames.

(** ---- the repaired defects, as refuted variants ---- *)
(** Go's growth for small slices doubles: a 3-element vector built by append has capacity 4 *)
Definition go_grow (cap need : nat) : nat := Nat.max need (2 * cap).

Definition witness_arena : arena := [OArr [HAtomic (VInt 1); HAtomic (VInt 2); HAtomic (VInt 3); NILCELL]].
Definition witness_v : hval := HSeq true 0 0 3.

(** before fix 7925729: (def a (conj v 4)) (def b (conj v 5)) changed a *)
Lemma conj_alias_refuted :
  let '(A1, a) := conj_vec_buggy go_grow witness_arena 0 0 3 [HAtomic (VInt 4)] in
  let '(A2, b) := conj_vec_buggy go_grow A1 0 0 3 [HAtomic (VInt 5)] in
  abs 3 A1 a = VVec [VInt 1; VInt 2; VInt 3; VInt 4] None /\
  abs 3 A2 a = VVec [VInt 1; VInt 2; VInt 3; VInt 5] None.
Proof. vm_compute. split; reflexivity. Qed.

(** with the fix the same history leaves a alone *)
Lemma conj_fixed_witness :
  let '(A1, a) := conj_vec go_grow witness_arena 0 0 3 [HAtomic (VInt 4)] in
  let '(A2, b) := conj_vec go_grow A1 0 0 3 [HAtomic (VInt 5)] in
  abs 3 A2 a = VVec [VInt 1; VInt 2; VInt 3; VInt 4] None /\ abs 3 A2 b = VVec [VInt 1; VInt 2; VInt 3; VInt 5] None /\
  abs 3 A2 witness_v = VVec [VInt 1; VInt 2; VInt 3] None.
Proof. vm_compute. repeat split; reflexivity. Qed.

(** a dissoc that deletes in the caller's map (seeded change C02-m2) breaks the frame *)
Lemma dissoc_in_place_refuted :
  let A := [OMap [(s_ "a", HAtomic (VInt 1)); (s_ "b", HAtomic (VInt 2))]] in
  let '(A1, m') := dissoc_map_in_place A 0 [s_ "b"] in
  abs 2 A (HMap 0) <> abs 2 A1 (HMap 0).
Proof. vm_compute. discriminate. Qed.
