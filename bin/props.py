# per-property configuration of bin/check
PROPS = {
    "C01": {
        "runner": "C01",
        "replay_hint": "evaluate the printed program in a fresh environment (lisp.READ + lisp.EVAL), e.g. echo PROGRAM | go/bin/enc -impl",
        "technique": 'Coq model of EVAL (fuel-indexed transcription) + per-clause equations proved on it; correspondence model vs Go on exhaustive small + random typed programs; definitional templates as direct oracle',
        "level_text": "Theorems C01_* are equations about one iteration of the transcribed EVAL loop (def in current scope returns value, fn captures its scope, if evaluates only the selected branch with nil/false falsy, quote, closure call binds parameters in a child of the defining scope after evaluating arguments once left to right); they hold for all programs, states and fuel. The evaluator model is tied to the code by the correspondence check (every program of a small enumeration + seeded typed random programs, results/errors and ordered trace! effects compared with the extracted model, which loads the repository's own lisp headers regenerated on every run) and by definitional templates with prescribed outcomes. A full refinement to a separate definitional evaluator is not proved (see DESIGN).",
        "level_note": "trusted: Coq kernel+VM, extraction (ExtrOcamlBasic), OCaml glue driver, Go harness, translator go/cmd/gen (headers through the repository's own reader); modelled not verified: Go runtime behaviour behind each checked primitive (index/slice/type assertion), reflect assignability, map iteration order (programs with effects inside map literals are not generated), metadata, printing of functions/atoms",
        "trusted": ["hand-written model of mal.go/env.go/call.go/core.go (Eval.v, Env.v, Binder.v, Core.v); tie = correspondence + regenerated headers"],
        "assumptions": ["programs terminate within the model fuel (RUN_FUEL=20000 loop iterations)"],
    },
    "C03": {
        "runner": "C03",
        "replay_hint": "evaluate the printed program in a fresh environment (lisp.READ + lisp.EVAL), e.g. echo PROGRAM | go/bin/enc -impl",
        "technique": "Coq model of try/catch/finally inside the EVAL transcription + lemmas (payload preserved by re-positioning, finally exactly once with outcome unchanged, handler gets the body's error); correspondence on generated nested try programs; templates as direct oracle",
        "level_text": "Theorems C03_* hold for all states/continuations of the model: re-wrapping never changes the payload, throw delivers values as payload and Go errors unchanged, the catch variable is bound to the payload, the deferred finally runs exactly once after body and handler in the try's own scope and cannot change the outcome. Tie to the code: correspondence on generated programs nesting try/catch/finally with throws in body/callee/builtin/map/apply/macro/handler and every data kind as thrown object (value, error payload, ordered trace compared), plus templates with prescribed outcomes.",
        "level_note": "trusted: Coq kernel+VM, extraction (ExtrOcamlBasic), OCaml glue driver, Go harness, translator go/cmd/gen (headers through the repository's own reader); modelled not verified: Go runtime behaviour behind each checked primitive (index/slice/type assertion), reflect assignability, map iteration order (programs with effects inside map literals are not generated), metadata, printing of functions/atoms",
        "trusted": ["hand-written model of mal.go/env.go/call.go/core.go (Eval.v, Env.v, Binder.v, Core.v); tie = correspondence + regenerated headers"],
        "assumptions": ["programs terminate within the model fuel (RUN_FUEL=20000 loop iterations)"],
    },
    "C04": {
        "runner": "C04",
        "replay_hint": "evaluate the printed program in a fresh environment (lisp.READ + lisp.EVAL), e.g. echo PROGRAM | go/bin/enc -impl",
        "technique": 'Coq model with explicit Panic outcome for every unchecked Go operation; theorems that the binder converts every panic; exhaustive malformed-special-form and builtin x operand enumeration vs the model; recover() as direct oracle',
        "level_text": 'Proved for all inputs: a builtin bound through the reflective binder never lets a panic out (arity gate, reflect assignability, the function body, and callbacks of higher-order builtins). For the special forms the model returns Panic exactly where Go would panic; that no such site is reachable is checked, not yet proved: every special-form head x every operand list up to length 3 (4 thorough) over a 23-element universe of malformed operands, every modelled builtin x 0..3 operands, random ASTs — implementation under recover() vs the model, 0 Panic outcomes on either side.',
        "level_note": "trusted: Coq kernel+VM, extraction (ExtrOcamlBasic), OCaml glue driver, Go harness, translator go/cmd/gen (headers through the repository's own reader); modelled not verified: Go runtime behaviour behind each checked primitive (index/slice/type assertion), reflect assignability, map iteration order (programs with effects inside map literals are not generated), metadata, printing of functions/atoms; the unbounded no-panic theorem for the special forms themselves is not proved in this revision (partial)",
        "trusted": ["hand-written model of mal.go/env.go/call.go/core.go (Eval.v, Env.v, Binder.v, Core.v); tie = correspondence + regenerated headers"],
        "assumptions": ["programs terminate within the model fuel (RUN_FUEL=20000 loop iterations)"],
    },
    "C08": {
        "runner": "C08",
        "vm_k": 3,
        "replay_hint": "evaluate the printed program in a fresh environment (lisp.READ + lisp.EVAL), e.g. echo PROGRAM | go/bin/enc -impl",
        "technique": 'Coq model of EVAL with an explicit host-stack depth parameter; theorems that tail positions continue at the same depth; numeric comparison of predicted vs observed lisp.EVAL frame counts for generated loop shapes',
        "level_text": "Theorems C08_*: in the transcribed EVAL the selected if branch, the last form of do, the body of a called closure and the expansion of a macro call are evaluated at the same depth d (= number of lisp.EVAL frames), for all programs/states/fuel. cond/and/or are the repository's own lisp text (regenerated), their constant depth is shown by computed examples and by the correspondence: for each generated loop shape (1-3 mutually recursive functions, nested tail contexts do/let/if/cond/and/or/fn-body) the model predicts the exact number of frames at n=0,1,2,10,120 and the harness counts them with runtime.Callers.",
        "level_note": "trusted: Coq kernel+VM, extraction (ExtrOcamlBasic), OCaml glue driver, Go harness, translator go/cmd/gen (headers through the repository's own reader); modelled not verified: Go runtime behaviour behind each checked primitive (index/slice/type assertion), reflect assignability, map iteration order (programs with effects inside map literals are not generated), metadata, printing of functions/atoms; a general theorem over all tail contexts at once (induction on contexts) is not stated, only the per-construct equations",
        "trusted": ["hand-written model of mal.go/env.go/call.go/core.go (Eval.v, Env.v, Binder.v, Core.v); tie = correspondence + regenerated headers"],
        "assumptions": ["programs terminate within the model fuel (RUN_FUEL=20000 loop iterations)"],
    },
    "C12": {
        "runner": "C12",
        "replay_hint": "evaluate the printed program in a fresh environment (lisp.READ + lisp.EVAL), e.g. echo PROGRAM | go/bin/enc -impl",
        "technique": 'Coq theorem: quasiquote expansion = template substitution for every evaluator giving quote/cons/concat/vec their standard meaning; macroexpand lemmas; correspondence + generator-side substitution oracle',
        "level_text": "C12_quasiquote_is_template is proved for all templates of any nesting (induction on values), in the state monad, so it covers value, error and effect order; macro lemmas: operands handed over unevaluated, macroexpand result's head is not a macro, call = expansion then evaluation in the caller's scope, non-macro forms untouched. Tie: correspondence on generated templates/macros (user macros incl. recursive and nullary ones, cond/and/or/->/->>), with the expected value and trace computed by the generator outside the interpreter, and call vs (eval (macroexpand call)).",
        "level_note": "trusted: Coq kernel+VM, extraction (ExtrOcamlBasic), OCaml glue driver, Go harness, translator go/cmd/gen (headers through the repository's own reader); modelled not verified: Go runtime behaviour behind each checked primitive (index/slice/type assertion), reflect assignability, map iteration order (programs with effects inside map literals are not generated), metadata, printing of functions/atoms; that the real evaluator satisfies the standard-meaning hypotheses of the quasiquote theorem is checked by correspondence, not proved",
        "trusted": ["hand-written model of mal.go/env.go/call.go/core.go (Eval.v, Env.v, Binder.v, Core.v); tie = correspondence + regenerated headers"],
        "assumptions": ["programs terminate within the model fuel (RUN_FUEL=20000 loop iterations)"],
    },
    "C14": {
        "runner": "C14",
        "technique": "Coq proof (nested induction) that the transcription of Equal_Q equals structural equality, which is an equivalence; correspondence model vs Go on exhaustive+random pairs",
        "level_text": "Theorems C14_structural/refl/sym/trans/kinds_disjoint/list_vector_interchange hold for all data values of any nesting (kernel-checked, no axioms). They are about the hand-written model equalI of types.Equal_Q; the tie to the code is the correspondence check (every ordered pair of a 66-value universe + seeded random/near-equal/rebuilt pairs through the real `=` builtin vs the extracted model, cross-checked with vm_compute) and a model-free structural oracle with symmetry/transitivity probes.",
        "level_note": "trusted: Coq kernel+VM, extraction (ExtrOcamlBasic), OCaml glue driver, Go harness; modelled not verified: Go == on interfaces, reflect.TypeOf; a change to Equal_Q that is invisible on the generated pairs is not detected",
        "replay_hint": "evaluate the printed (= 'a 'b) form in a fresh environment (lisp.READ + lisp.EVAL)",
        "trusted": ["modelled rather than verified: Go's == on interface values (go_eq_same_type), reflect.TypeOf as a type tag"],
        "assumptions": ["Go map semantics (keys pairwise distinct) as the association-list invariant nodup_keys",
                        "metadata fields (Meta, Cursor) do not take part in equality (they do not in Equal_Q)"],
    },
}

NOT_CLAIMED = {p: "machinery for this property is not built yet in this revision (see DESIGN.md §9 order of work)" for p in
               ["C%02d" % i for i in range(1, 21)] if p not in PROPS}
