(** Base definitions shared by all models: strings as lists of code points,
    small list utilities.  Definitions only (proofs live in *Proofs.v files). *)
(* String first, so that List.length, List.concat ... shadow the String ones *)
From Coq Require Export String Ascii.
From Coq Require Export List ZArith NArith Lia Bool.
Export ListNotations.
Open Scope Z_scope.

(** A Go string as the sequence of its code points (the harness decodes UTF-8;
    an invalid byte b is represented by 1114112 + b and never occurs in values
    produced by the reader, which rejects invalid UTF-8). *)
Definition str := list N.

Fixpoint str_eqb (a b : str) : bool :=
  match a, b with
  | [], [] => true
  | x :: a', y :: b' => N.eqb x y && str_eqb a' b'
  | _, _ => false
  end.

(** U+00AC, the raw-string quote *)
Definition RAWQ : N := 172%N.

(** U+029E, the marker Go code prefixes to a string to make it a keyword. *)
Definition KW : N := 670%N.

Definition is_kw (s : str) : bool :=
  match s with c :: _ => N.eqb c KW | [] => false end.

(** lexicographic order on strings, used only to canonicalise maps/sets for printing *)
Fixpoint str_ltb (a b : str) : bool :=
  match a, b with
  | [], [] => false
  | [], _ :: _ => true
  | _ :: _, [] => false
  | x :: a', y :: b' => if N.ltb x y then true else if N.ltb y x then false else str_ltb a' b'
  end.

Fixpoint prefix_of (p s : str) : bool :=
  match p, s with
  | [], _ => true
  | x :: p', y :: s' => N.eqb x y && prefix_of p' s'
  | _ :: _, [] => false
  end.

Definition suffix_of (p s : str) : bool := prefix_of (rev p) (rev s).

(** ASCII literal helper: s_ "abc" *)
Fixpoint s_ (x : String.string) : str :=
  match x with
  | String.EmptyString => []
  | String.String c r => Ascii.N_of_ascii c :: s_ r
  end.
Arguments s_ x%string.

Fixpoint nth_opt {A} (l : list A) (n : nat) : option A :=
  match l, n with
  | [], _ => None
  | x :: _, O => Some x
  | _ :: r, S n' => nth_opt r n'
  end.
