(** C02 — lisp values are immutable: no operation changes an existing value.
    Stated on the slice-level arena machine (Arena.v), where Go's aliasing (shared backing
    arrays with spare capacity, shared maps) is explicit. *)
From Lisp Require Import Base Value Core Arena ArenaProofs.

(** one step: every object that existed before the step is untouched, for every operation,
    every argument layout and EVERY growth policy of append *)
Theorem C02_step_frame : forall grow A regs o,
  arena_ok A -> regs_ok A regs ->
  forall A' h, run_op grow A regs o = (A', h) -> frame A A' h.
Proof. exact run_op_frame. Qed.

(** a value reads the same in any arena that agrees on the objects older than the value *)
Theorem C02_reading_depends_on_older_objects_only : forall f n A A' h,
  arena_ok A -> agree n A A' -> older n h -> abs f A' h = abs f A h.
Proof. exact abs_agree. Qed.

(** histories of any length and fan-out: a binding, once made, reads the same forever *)
Theorem C02_history_immutable : forall grow ops A regs A' regs',
  arena_ok A -> regs_ok A regs ->
  run_history grow A regs ops = (A', regs') ->
  (forall f r, In r regs -> abs f A' r = abs f A r) /\ arena_ok A' /\ regs_ok A' regs' /\
  (exists more, regs' = regs ++ more).
Proof. exact history_immutable. Qed.

(** two values derived from a common ancestor never influence each other *)
Theorem C02_derived_values_independent : forall grow ops1 ops2 A regs A1 regs1 A2 regs2,
  arena_ok A -> regs_ok A regs ->
  run_history grow A regs ops1 = (A1, regs1) -> run_history grow A1 regs1 ops2 = (A2, regs2) ->
  forall f r, In r regs1 -> abs f A2 r = abs f A1 r.
Proof. exact derived_values_independent. Qed.

(** non-vacuity: the empty arena satisfies the hypotheses, so every history from scratch does *)
Example C02_initial_state_ok : arena_ok [] /\ regs_ok [] [].
Proof. split; [intros i o H; destruct i; discriminate | constructor]. Qed.

(** the repaired defect (fix 7925729) as a refuted variant: with the in-place append the second
    conj rewrites the first result; with the copy it does not *)
Example C02_conj_alias_refuted :
  let '(A1, a) := conj_vec_buggy go_grow witness_arena 0 0 3 [HAtomic (VInt 4)] in
  let '(A2, b) := conj_vec_buggy go_grow A1 0 0 3 [HAtomic (VInt 5)] in
  abs 3 A1 a = VVec [VInt 1; VInt 2; VInt 3; VInt 4] None /\
  abs 3 A2 a = VVec [VInt 1; VInt 2; VInt 3; VInt 5] None.
Proof. exact conj_alias_refuted. Qed.

Example C02_conj_fixed_witness :
  let '(A1, a) := conj_vec go_grow witness_arena 0 0 3 [HAtomic (VInt 4)] in
  let '(A2, b) := conj_vec go_grow A1 0 0 3 [HAtomic (VInt 5)] in
  abs 3 A2 a = VVec [VInt 1; VInt 2; VInt 3; VInt 4] None /\ abs 3 A2 b = VVec [VInt 1; VInt 2; VInt 3; VInt 5] None /\
  abs 3 A2 witness_v = VVec [VInt 1; VInt 2; VInt 3] None.
Proof. exact conj_fixed_witness. Qed.

(** a delete performed in the caller's own map breaks the frame *)
Example C02_dissoc_in_place_refuted :
  let A := [OMap [(s_ "a", HAtomic (VInt 1)); (s_ "b", HAtomic (VInt 2))]] in
  let '(A1, m') := dissoc_map_in_place A 0 [s_ "b"] in
  abs 2 A (HMap 0) <> abs 2 A1 (HMap 0).
Proof. exact dissoc_in_place_refuted. Qed.

Print Assumptions C02_step_frame.
Print Assumptions C02_reading_depends_on_older_objects_only.
Print Assumptions C02_history_immutable.
Print Assumptions C02_derived_values_independent.
