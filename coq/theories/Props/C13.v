(** C13 — collection builtins behave as pure functions matching the sequence/map/set model.
    The builtins are the transcriptions in Core.v; the laws below are the defining equations
    of the abstract model (finite maps with distinct string keys, ordered sequences). *)
From Lisp Require Import Base Value Equal Core CoreProofs.

(** finite maps *)
Theorem C13_get_assoc_same : forall m k v,
  b_assoc [VMap m; VStr k; v] = Ok (VMap (aset k v m)) /\ b_get [VMap (aset k v m); VStr k] = Ok v.
Proof. exact get_assoc_same. Qed.
Theorem C13_get_assoc_other : forall m k k' v,
  k <> k' -> b_get [VMap (aset k v m); VStr k'] = b_get [VMap m; VStr k'].
Proof. exact get_assoc_other. Qed.
Theorem C13_contains_assoc : forall m k v, b_contains_Q [VMap (aset k v m); VStr k] = Ok (VBool true).
Proof. exact contains_assoc. Qed.
Theorem C13_contains_dissoc_same : forall m k, nodup_keys m = true ->
  b_dissoc [VMap m; VStr k] = Ok (VMap (adel k m)) /\ b_contains_Q [VMap (adel k m); VStr k] = Ok (VBool false).
Proof. exact contains_dissoc_same. Qed.
Theorem C13_contains_dissoc_other : forall m k k',
  k <> k' -> b_contains_Q [VMap (adel k m); VStr k'] = b_contains_Q [VMap m; VStr k'].
Proof. exact contains_dissoc_other. Qed.
Theorem C13_merge_second_takes_precedence : forall m0 m1 k, nodup_keys m1 = true ->
  exists m, b_merge [VMap m0; VMap m1] = Ok (VMap m) /\
            alookup k m = match alookup k m1 with Some v => Some v | None => alookup k m0 end.
Proof. exact merge_lookup. Qed.

(** distinct keys are preserved: the map builtins never fabricate an ill-formed map *)
Theorem C13_assoc_result_is_data : forall m kvs v,
  data (VMap m) = true -> forallb data kvs = true -> b_assoc (VMap m :: kvs) = Ok v -> data v = true.
Proof. exact assoc_map_is_data. Qed.
Theorem C13_dissoc_result_is_data : forall m ks v,
  data (VMap m) = true -> b_dissoc (VMap m :: ks) = Ok v -> data v = true.
Proof. exact dissoc_map_is_data. Qed.

(** ordered sequences; result kinds as documented (take/drop/rest/concat give lists, conj keeps the kind) *)
Theorem C13_take_drop_partition : forall n l p,
  exists a b, b_take [VInt n; VVec l p] = Ok (VList a None) /\ b_drop [VInt n; VVec l p] = Ok (VList b None) /\ a ++ b = l.
Proof. exact take_drop_concat. Qed.
Theorem C13_cons_first_rest : forall x l p,
  b_cons [x; VList l p] = Ok (VList (x :: l) None) /\
  b_first [VList (x :: l) None] = Ok x /\ b_rest [VList (x :: l) None] = Ok (VList l None).
Proof. exact first_rest_cons. Qed.
Theorem C13_first_rest_of_nothing :
  b_first [VNil] = Ok VNil /\ b_first [VList [] None] = Ok VNil /\ b_rest [VNil] = Ok (VList [] None) /\ b_rest [VVec [] None] = Ok (VList [] None).
Proof. exact first_rest_empty. Qed.
Theorem C13_conj_prepends_to_lists_appends_to_vectors : forall l p xs,
  b_conj (VList l p :: xs) = Ok (VList (rev xs ++ l) None) /\ b_conj (VVec l p :: xs) = Ok (VVec (l ++ xs) None).
Proof. exact conj_kinds. Qed.
Theorem C13_nth_in_range : forall l p i x, nth_error l i = Some x -> b_nth [VList l p; VInt (Z.of_nat i)] = Ok x.
Proof. exact nth_in_range. Qed.

(** outside the domain: an error, never a wrong value *)
Theorem C13_nth_out_of_range_is_error : forall l p i, Z.of_nat (length l) <= i -> exists e, b_nth [VList l p; VInt i] = Err e.
Proof. exact nth_out_of_range. Qed.
Theorem C13_subvec_window_or_error : forall l p from to,
  (0 <= from <= to /\ to <= Z.of_nat (length l) ->
     b_subvec [VVec l p; VInt from; VInt to] = Ok (VVec (firstn (Z.to_nat (to - from)) (skipn (Z.to_nat from) l)) None)) /\
  (~ (0 <= from <= to /\ to <= Z.of_nat (length l)) -> exists e, b_subvec [VVec l p; VInt from; VInt to] = Err e).
Proof. exact subvec_spec. Qed.
Theorem C13_out_of_domain_is_error :
  (forall k, exists e, b_hash_map [VStr k; VInt 1; VStr k] = Err e) /\
  (exists e, b_first [VInt 5] = Err e) /\ (exists e, b_count [VInt 5] = Err e) /\
  (forall x, exists e, b_conj [VInt 5; x] = Err e) /\ (forall l p, exists e, b_keys [VVec l p] = Err e) /\
  (forall l p, exists e, b_subvec [VList l p; VInt 0] = Err e).
Proof. exact out_of_domain_errors. Qed.

(** regression witnesses of repaired defects (computed) *)
Example C13_seq_nil : b_seq [VNil] = Ok VNil. Proof. reflexivity. Qed.
Example C13_subvec_beyond_length : exists e, b_subvec [VVec [VInt 1; VInt 2; VInt 3] None; VInt 0; VInt 4] = Err e.
Proof. eexists; reflexivity. Qed.
Example C13_merge_empty_map_nil : b_merge [VMap []; VNil] = Ok (VMap []). Proof. reflexivity. Qed.
Example C13_rename_keys_collision :
  b_rename_keys [VMap [(s_ "a", VInt 1); (s_ "b", VInt 2)]; VMap [(s_ "a", VStr (s_ "b"))]] = Ok (VMap [(s_ "b", VInt 1)]).
Proof. reflexivity. Qed.

Print Assumptions C13_get_assoc_same.
Print Assumptions C13_merge_second_takes_precedence.
Print Assumptions C13_assoc_result_is_data.
Print Assumptions C13_subvec_window_or_error.
Print Assumptions C13_take_drop_partition.
