package h

import (
	"github.com/jig/lisp/types"
)

// AST constructors (position-less, as Go code builds them: the L-notation route)
func S(name string) types.MalType            { return types.Symbol{Val: name} }
func L(xs ...types.MalType) types.MalType    { return types.List{Val: xs} }
func V(xs ...types.MalType) types.MalType    { return types.Vector{Val: xs} }
func Q(x types.MalType) types.MalType        { return L(S("quote"), x) }
func Call(f string, xs ...types.MalType) types.MalType {
	return types.List{Val: append([]types.MalType{S(f)}, xs...)}
}

// PG generates mostly-valid, terminating programs over the core special forms and a fixed
// builtin vocabulary, with effects through (trace! x).  Every choice comes from R.
type PG struct {
	R       *Rng
	Hist    map[string]int
	counter int
	// CancelOdds > 0: one expression in CancelOdds is preceded by (cancel!), the harness builtin
	// that cancels the context of the running evaluation (C07)
	CancelOdds int
}

func NewPG(r *Rng) *PG { return &PG{R: r, Hist: map[string]int{}} }

func (g *PG) tag(t string) { g.Hist[t]++ }

func (g *PG) fresh(prefix string) string {
	g.counter++
	return prefix + string(rune('a'+g.counter%20))
}

type scope struct {
	vars []string // bound to arbitrary values
	fns  []fnInfo // bound to closures of known arity
}
type fnInfo struct {
	name     string
	arity    int
	variadic bool
}

func (s scope) withVar(v string) scope {
	return scope{append(append([]string{}, s.vars...), v), s.fns}
}
func (s scope) withFn(f fnInfo) scope {
	return scope{s.vars, append(append([]fnInfo{}, s.fns...), f)}
}

var litPool = []types.MalType{0, 1, 2, 3, -1, 7, nil, true, false, "s", "", Kw("k"), Kw("a"), "a\tb", "cr\rlf", "q\"\\n"}

func (g *PG) Lit() types.MalType { return litPool[g.R.Intn(len(litPool))] }

// Int produces an expression that evaluates to an int (mostly).
func (g *PG) Int(depth int, sc scope) types.MalType {
	if depth <= 0 || g.R.Intn(3) == 0 {
		return []types.MalType{0, 1, 2, 3, 5, -1}[g.R.Intn(6)]
	}
	switch g.R.Intn(6) {
	case 0:
		g.tag("arith")
		return Call(g.R.Pick([]string{"+", "-", "*"}), g.Int(depth-1, sc), g.Int(depth-1, sc))
	case 1:
		g.tag("trace")
		return Call("trace!", g.Int(depth-1, sc))
	case 2:
		g.tag("count")
		return Call("count", g.ListExpr(depth-1, sc))
	case 3:
		g.tag("if")
		return Call("if", g.Cond(depth-1, sc), g.Int(depth-1, sc), g.Int(depth-1, sc))
	case 4:
		g.tag("let")
		v := g.fresh("x")
		return Call("let", V(S(v), g.Int(depth-1, sc)), Call("+", S(v), g.Int(depth-1, sc.withVar(v))))
	default:
		return g.Int(depth-1, sc)
	}
}

func (g *PG) Cond(depth int, sc scope) types.MalType {
	switch g.R.Intn(7) {
	case 0:
		return true
	case 1:
		return false
	case 2:
		return nil
	case 3:
		g.tag("truthy-nonbool") // only nil and false are falsy
		return []types.MalType{0, "", L(S("list")), V(), Kw("k")}[g.R.Intn(5)]
	case 4:
		return Call("=", g.Int(depth-1, sc), g.Int(depth-1, sc))
	case 5:
		return Call("<", g.Int(depth-1, sc), g.Int(depth-1, sc))
	default:
		return Call("trace!", g.Lit())
	}
}

func (g *PG) ListExpr(depth int, sc scope) types.MalType {
	switch g.R.Intn(4) {
	case 0:
		return Call("list", g.Expr(depth-1, sc), g.Expr(depth-1, sc))
	case 1:
		return V(g.Expr(depth-1, sc))
	case 2:
		return Q(L(1, 2, S("zz")))
	default:
		return Call("list")
	}
}

// Expr produces an arbitrary expression.
func (g *PG) Expr(depth int, sc scope) types.MalType {
	if g.CancelOdds > 0 && depth > 0 && g.R.Intn(g.CancelOdds) == 0 {
		g.tag("cancel!")
		return Call("do", Call("cancel!"), g.Expr(depth-1, sc))
	}
	if depth <= 0 {
		if len(sc.vars) > 0 && g.R.Bool() {
			return S(g.R.Pick(sc.vars))
		}
		return g.Lit()
	}
	switch g.R.Intn(26) {
	case 24: // every iteration of a self tail call has a scope of its own: closures made in earlier iterations keep their n; a def made in one iteration is gone in the next
		f := g.fresh("it")
		if g.R.Bool() {
			g.tag("tail-loop-closures-keep-their-iteration")
			return Call("do", Call("def", S(f), Call("fn", V(S("n"), S("acc")),
				Call("if", Call("=", S("n"), 0), Call("map", Call("fn", V(S("g")), L(S("g"))), S("acc")),
					Call(f, Call("-", S("n"), 1), Call("cons", Call("fn", V(), S("n")), S("acc")))))),
				Call(f, 2+g.R.Intn(3), Call("list")))
		}
		g.tag("tail-loop-def-does-not-survive-the-iteration")
		x := g.fresh("lx")
		return Call("do", Call("def", S(f), Call("fn", V(S("n")),
			Call("if", Call("=", S("n"), 0), Call("try", S(x), Call("catch", S("e"), Kw("unbound"))),
				Call("do", Call("if", Call("=", S("n"), 2), Call("def", S(x), 100)), Call(f, Call("-", S("n"), 1)))))),
			Call(f, 3))
	case 25: // a scope that is still EMPTY when a nested scope is opened is the nested scope's parent all the same: bindings added to it later are seen
		k, gname := g.fresh("lk"), g.fresh("lg")
		switch g.R.Intn(3) {
		case 0:
			g.tag("binding-added-to-empty-parent-scope-after-closure:def")
			return Call("do", Call("def", S(k), Kw("outer")),
				L(Call("fn", V(), Call("def", S(gname), Call("let", V(S("z"), 1), Call("fn", V(), S(k)))), Call("def", S(k), Kw("inner")), Call(gname))))
		case 1:
			g.tag("binding-added-to-empty-parent-scope-after-closure:sequential-let")
			return Call("do", Call("def", S(k), Kw("outer")),
				Call("let", V(S(gname), Call("let", V(S("z"), 1), Call("fn", V(), S(k))), S(k), Kw("inner")), Call(gname)))
		default:
			g.tag("binding-added-to-empty-parent-scope-after-closure:unbound-outside")
			return L(Call("fn", V(), Call("def", S(gname), L(Call("fn", V(), Call("fn", V(), S(k))))), Call("def", S(k), 4), Call(gname)))
		}
	case 23: // = on quoted data that holds symbols and nested collections: the same data written twice is equal wherever it was written
		g.tag("equal-on-quoted-data")
		d := []types.MalType{V(S("a"), S("b")), V(S("k"), L(1, 2), V(3)), L(S("a"), V(S("b"))), V(V(S("x")))}[g.R.Intn(4)]
		var other types.MalType = Q(d)
		switch g.R.Intn(3) {
		case 0:
			if v, ok := d.(types.Vector); ok {
				other = Q(types.List{Val: v.Val}) // a list and a vector with equal elements are equal
			}
		case 1:
			other = Call("let", V(S("same"), Q(d)), S("same"))
		}
		return Call("list", Call("=", Q(d), other), Call("=", other, Q(d)), Call("=", Call("vector", Q(d)), Call("vector", other)))
	case 22: // a def inside a function body binds in the scope of THAT call (also for a call without parameters): invisible outside, the outer binding untouched
		n, k := g.fresh("dn"), g.R.Intn(3)
		var params, args []types.MalType
		for i := 0; i < k; i++ {
			params = append(params, S(g.fresh("p")))
			args = append(args, g.Lit())
		}
		call := append([]types.MalType{Call("fn", V(params...), Call("def", S(n), Kw("inner")), Call("trace!", S(n)))}, args...)
		switch g.R.Intn(3) {
		case 0:
			g.tag("def-in-call-leaves-outer-global-alone")
			return Call("do", Call("def", S(n), Kw("outer")), L(call...), S(n))
		case 1:
			g.tag("def-in-call-leaves-let-binding-alone")
			return Call("let", V(S(n), Kw("outer")), L(call...), S(n))
		default:
			g.tag("def-in-call-is-unbound-outside")
			return Call("do", L(call...), S(n))
		}
	case 20: // a closure captures a scope, THEN a let in tail position of that scope (directly, through do / if, in a function body) rebinds the captured name
		a, f := g.fresh("a"), g.fresh("cf")
		inner := Call("let", V(S(a), g.Int(depth-1, sc)), Call("list", S(a), Call(f)))
		switch g.R.Intn(4) {
		case 0:
			g.tag("tail-let-shadows-captured-name")
		case 1:
			g.tag("tail-let-shadows-captured-name-through-do")
			inner = Call("do", Call("trace!", S(a)), inner)
		case 2:
			g.tag("tail-let-shadows-captured-name-through-if")
			inner = Call("if", g.Cond(depth-1, sc), inner, inner)
		default:
			g.tag("tail-let-shadows-parameter-captured-by-closure")
			return L(Call("fn", V(S(a)), Call("let", V(S(f), Call("fn", V(), S(a))), inner)), g.Int(depth-1, sc))
		}
		return Call("let", V(S(a), g.Expr(depth-1, sc), S(f), Call("fn", V(), S(a))), inner)
	case 21: // a collection literal that is NOT the last form of a body still evaluates its elements (effects, errors)
		lit := []types.MalType{V(Call("trace!", 1), Call("trace!", 2)), types.HashMap{Val: map[string]types.MalType{Kw("k"): Call("trace!", 1)}},
			V(V(Call("trace!", g.Lit()))), V(S("undefined-" + g.fresh("u"))), V(Call("throw", "boom")), V(g.Expr(depth-1, sc))}[g.R.Intn(6)]
		last := Call("trace!", 3)
		switch g.R.Intn(4) {
		case 0:
			g.tag("non-tail-literal-in-do")
			return Call("do", Call("trace!", 0), lit, last)
		case 1:
			g.tag("non-tail-literal-in-let-body")
			return Call("let", V(), lit, last)
		case 2:
			g.tag("non-tail-literal-in-fn-body")
			return L(Call("fn", V(), lit, last))
		default:
			g.tag("non-tail-literal-in-catch-body")
			return Call("try", Call("throw", 1), Call("catch", S("e"), lit, last))
		}
	case 16:
		return g.macroBuiltCall(depth, sc)
	case 17: // the callee is evaluated FIRST, then the arguments left to right: a head with an effect, an unbound head, an argument that rebinds the head
		switch g.R.Intn(3) {
		case 0:
			g.tag("call-effectful-head")
			return L(Call("do", Call("trace!", Kw("head")), S(g.R.Pick([]string{"list", "+", "vector"}))), Call("trace!", 1), Call("trace!", 2))
		case 1:
			g.tag("call-unbound-head-traced-args")
			return Call("undefined-"+g.fresh("h"), Call("trace!", 1), g.Expr(depth-1, sc))
		default:
			g.tag("call-argument-rebinds-head")
			f := g.fresh("w")
			return Call("do", Call("def", S(f), Call("fn", V(S("x")), Call("list", Kw("old"), S("x")))),
				Call(f, Call("do", Call("def", S(f), Call("fn", V(S("x")), Call("list", Kw("new"), S("x")))), 7)))
		}
	case 18: // a name resolves to its innermost binding AT THE TIME OF THE LOOKUP: a closure made in a let, called, the free global rebound, called again
		g.tag("closure-sees-rebinding-after-first-call")
		x, f, k := g.fresh("gx"), g.fresh("gf"), g.fresh("k")
		first := g.Int(depth-1, sc)
		return Call("do", Call("def", S(x), first),
			Call("def", S(f), Call("let", V(S(k), 10), Call("fn", V(), Call("list", S(x), S(k))))),
			Call("list", Call(f), Call("do", Call("def", S(x), Kw("rebound")), Call(f)), Call(f)))
	case 19: // same through a function-returning function, the rebound name being a function
		g.tag("closure-sees-redefined-helper")
		h, mk, api := g.fresh("hh"), g.fresh("mk"), g.fresh("api")
		return Call("do", Call("def", S(h), Call("fn", V(S("n")), Call("list", Kw("v1"), S("n")))),
			Call("def", S(mk), Call("fn", V(S("k")), Call("fn", V(S("n")), Call("list", S("k"), Call(h, S("n")))))),
			Call("def", S(api), Call(mk, 100)),
			Call("list", Call(api, 1), Call("do", Call("def", S(h), Call("fn", V(S("n")), Call("list", Kw("v2"), S("n")))), Call(api, 1))))
	case 0:
		return g.Lit()
	case 1:
		if len(sc.vars) > 0 {
			g.tag("var")
			return S(g.R.Pick(sc.vars))
		}
		return g.Lit()
	case 2:
		g.tag("trace")
		return Call("trace!", g.Expr(depth-1, sc))
	case 3:
		g.tag("if")
		if g.R.Intn(4) == 0 {
			return Call("if", g.Cond(depth-1, sc), g.Expr(depth-1, sc))
		}
		return Call("if", g.Cond(depth-1, sc), g.Expr(depth-1, sc), g.Expr(depth-1, sc))
	case 4:
		g.tag("do")
		n := g.R.Intn(4)
		xs := []types.MalType{S("do")}
		for i := 0; i < n; i++ {
			xs = append(xs, g.Expr(depth-1, sc))
		}
		return L(xs...)
	case 5: // sequential let, later bindings see earlier ones, shadowing
		g.tag("let")
		v1, v2 := g.fresh("x"), g.fresh("y")
		if g.R.Intn(4) == 0 && len(sc.vars) > 0 {
			v1 = g.R.Pick(sc.vars) // shadow
			g.tag("let-shadow")
		}
		sc1 := sc.withVar(v1)
		sc2 := sc1.withVar(v2)
		body := []types.MalType{S("let"), V(S(v1), g.Expr(depth-1, sc), S(v2), g.Expr(depth-1, sc1))}
		for i, n := 0, g.R.Intn(3); i < n; i++ {
			body = append(body, g.Expr(depth-1, sc2))
		}
		return L(body...)
	case 6: // closure created and called (right or wrong arity)
		return g.fnCall(depth, sc)
	case 7: // def in current scope returns the value; later forms see it
		g.tag("def")
		name := g.fresh("g")
		return Call("do", Call("def", S(name), g.Expr(depth-1, sc)), g.Expr(depth-1, sc.withVar(name)))
	case 8:
		g.tag("quote")
		return Q(g.R.pickForm())
	case 9:
		return g.Int(depth-1, sc)
	case 10:
		return g.ListExpr(depth, sc)
	case 11: // builtin call, arguments evaluated once left to right
		g.tag("builtin-call")
		return Call("list", Call("trace!", g.Lit()), g.Expr(depth-1, sc), Call("trace!", g.Lit()))
	case 12: // recursion
		return g.recursion(depth, sc)
	case 13: // closure capturing its defining scope, called after the scope has been left
		g.tag("closure-capture")
		v := g.fresh("c")
		f := g.fresh("k")
		return Call("let", V(S(f), Call("let", V(S(v), g.Expr(depth-1, sc)), Call("fn", V(), S(v)))), Call(f))
	case 14: // error paths
		switch g.R.Intn(4) {
		case 0:
			g.tag("err-undefined")
			return S("undefined-" + g.fresh("u"))
		case 1:
			g.tag("err-type")
			return Call("+", 1, "s")
		case 2:
			g.tag("err-nonfn")
			return L(1, 2)
		default:
			g.tag("err-first")
			return Call("first", 5)
		}
	default:
		if len(sc.fns) > 0 {
			f := sc.fns[g.R.Intn(len(sc.fns))]
			return g.callKnown(f, depth, sc)
		}
		return g.Expr(depth-1, sc)
	}
}

func (r *Rng) pickForm() types.MalType {
	forms := []types.MalType{S("a"), L(S("+"), 1, 2), L(), V(S("x"), 1), L(S("undefined"), L(S("quote"), S("q"))), 5}
	return forms[r.Intn(len(forms))]
}

func (g *PG) callKnown(f fnInfo, depth int, sc scope) types.MalType {
	n := f.arity
	switch g.R.Intn(10) {
	case 0:
		n--
		g.tag("arity-too-few")
	case 1:
		n++
		if !f.variadic {
			g.tag("arity-too-many")
		}
	}
	if n < 0 {
		n = 0
	}
	xs := []types.MalType{S(f.name)}
	for i := 0; i < n; i++ {
		xs = append(xs, Call("trace!", g.Expr(depth-2, sc)))
	}
	g.tag("call")
	return L(xs...)
}

func (g *PG) fnCall(depth int, sc scope) types.MalType {
	arity := g.R.Intn(3)
	variadic := g.R.Intn(4) == 0
	var params []types.MalType
	inner := sc
	for i := 0; i < arity; i++ {
		p := g.fresh("p")
		params = append(params, S(p))
		inner = inner.withVar(p)
	}
	if variadic {
		p := g.fresh("r")
		params = append(params, S("&"), S(p))
		inner = inner.withVar(p)
		g.tag("fn-rest")
	}
	fn := []types.MalType{S("fn"), V(params...)}
	for i, n := 0, g.R.Intn(3); i < n; i++ { // bodies of 0, 1, 2 forms
		fn = append(fn, g.Expr(depth-1, inner))
	}
	g.tag("fn")
	name := g.fresh("f")
	info := fnInfo{name, arity, variadic}
	return Call("let", V(S(name), L(fn...)), g.callKnown(info, depth, sc.withFn(info)), g.Expr(depth-1, sc.withFn(info)))
}

func (g *PG) recursion(depth int, sc scope) types.MalType {
	g.tag("recursion")
	f := g.fresh("rec")
	k := g.R.Intn(5)
	switch g.R.Intn(3) {
	case 0: // tail recursive accumulator
		return Call("do", Call("def", S(f), Call("fn", V(S("n"), S("acc")),
			Call("if", Call("=", S("n"), 0), S("acc"), Call(f, Call("-", S("n"), 1), Call("+", S("acc"), Call("trace!", S("n"))))))),
			Call(f, k, 0))
	case 1: // non-tail
		return Call("do", Call("def", S(f), Call("fn", V(S("n")),
			Call("if", Call("<", S("n"), 1), 0, Call("+", S("n"), Call(f, Call("-", S("n"), 1)))))),
			Call(f, k))
	default: // builds a list
		return Call("do", Call("def", S(f), Call("fn", V(S("n")),
			Call("if", Call("=", S("n"), 0), Call("list"), Call("cons", S("n"), Call(f, Call("-", S("n"), 1)))))),
			Call(f, k))
	}
}

// Program is one top-level program for C01.
func (g *PG) Program(depth int) types.MalType {
	return g.Expr(depth, scope{})
}

// macroBuiltCall: a builtin that calls back into lisp (map, apply, eval, swap!, update) whose
// call form is BUILT AT RUN TIME by a macro (hence carries no source position), around a
// closure that fails at a positioned form; sometimes inside try/catch.
func (g *PG) macroBuiltCall(depth int, sc scope) types.MalType {
	g.tag("macro-built-propagating-call")
	failing := []types.MalType{
		Call("throw", types.HashMap{Val: map[string]types.MalType{Kw("bad"): S("v")}}),
		Call("undefined-zz", S("v")), Call("first", 5), Call("nth", V(1), S("v")), Call("+", S("v"), 1),
	}[g.R.Intn(5)]
	f := Call("fn", V(S("v")), Call("trace!", S("v")), failing)
	qq := func(xs ...types.MalType) types.MalType { return L(S("quasiquote"), L(xs...)) }
	uq := func(x string) types.MalType { return L(S("unquote"), S(x)) }
	var def, call types.MalType
	switch g.R.Intn(4) {
	case 0:
		def = Call("defmacro", S("mm!"), Call("fn", V(S("f"), S("x")), qq(S("map"), uq("f"), uq("x"))))
		call = Call("mm!", f, V(3, 4))
	case 1:
		def = Call("defmacro", S("mm!"), Call("fn", V(S("f"), S("x")), qq(S("apply"), uq("f"), uq("x"))))
		call = Call("mm!", f, V(3))
	case 2:
		def = Call("defmacro", S("mm!"), Call("fn", V(S("f"), S("x")), qq(S("swap!"), L(S("atom"), 3), uq("f"))))
		call = Call("mm!", f, 0)
	default:
		def = Call("defmacro", S("mm!"), Call("fn", V(S("f"), S("x")), qq(S("eval"), qq(uq("f"), 3))))
		call = Call("mm!", f, 0)
	}
	if g.R.Bool() {
		g.tag("macro-built-call-in-try")
		call = Call("try", call, Call("catch", S("e"), Call("list", Kw("caught"), S("e"))))
	}
	return Call("do", def, call)
}
