(** C13: the collection builtins satisfy the laws of the abstract model (ordered sequences,
    finite maps with distinct string keys, finite sets), keep Go-map well-formedness
    (distinct keys), and reject out-of-domain arguments with an error, never a wrong value. *)
From Lisp Require Import Base Value Equal Core BaseProofs.

(** ---- finite-map algebra on association lists ---- *)
Lemma alookup_aset_eq {A} k (v : A) m : alookup k (aset k v m) = Some v.
Proof.
  induction m as [|[k' v'] m IH]; simpl.
  - now rewrite str_eqb_refl.
  - destruct (str_eqb_spec k k') as [->|Hne]; simpl.
    + now rewrite str_eqb_refl.
    + destruct (str_eqb_spec k k'); [congruence|auto].
Qed.

Lemma alookup_aset_neq {A} k k' (v : A) m : k <> k' -> alookup k' (aset k v m) = alookup k' m.
Proof.
  intros Hne. induction m as [|[k2 v2] m IH]; simpl.
  - destruct (str_eqb_spec k' k); [congruence|auto].
  - destruct (str_eqb_spec k k2) as [->|Hne2]; simpl.
    + destruct (str_eqb_spec k' k2); [congruence|auto].
    + destruct (str_eqb_spec k' k2); auto.
Qed.

Lemma in_fst_aset {A} k (v : A) m x : In x (map fst (aset k v m)) <-> x = k \/ In x (map fst m).
Proof.
  induction m as [|[k2 v2] m IH]; simpl; [intuition|].
  destruct (str_eqb_spec k k2) as [->|Hne]; simpl; [intuition|]. rewrite IH. intuition.
Qed.

Lemma nodup_keys_aset {A} k (v : A) m : nodup_keys m = true -> nodup_keys (aset k v m) = true.
Proof.
  rewrite !nodup_keys_NoDup. induction m as [|[k2 v2] m IH]; simpl; intros H.
  - constructor; [tauto|constructor].
  - inversion H as [|? ? Hn Hd]; subst. destruct (str_eqb_spec k k2) as [->|Hne]; simpl.
    + constructor; auto.
    + constructor; auto. rewrite in_fst_aset. intros [?|?]; congruence.
Qed.

Lemma in_fst_adel {A} k (m : list (str * A)) x : In x (map fst (adel k m)) -> In x (map fst m).
Proof.
  induction m as [|[k2 v2] m IH]; simpl; auto.
  destruct (str_eqb k k2); simpl; intuition.
Qed.

Lemma nodup_keys_adel {A} k (m : list (str * A)) : nodup_keys m = true -> nodup_keys (adel k m) = true.
Proof.
  rewrite !nodup_keys_NoDup. induction m as [|[k2 v2] m IH]; simpl; intros H; auto.
  inversion H as [|? ? Hn Hd]; subst. destruct (str_eqb k k2); simpl; auto.
  constructor; auto. intros Hin; apply Hn. eapply in_fst_adel; eauto.
Qed.

Lemma alookup_adel_eq {A} k (m : list (str * A)) : nodup_keys m = true -> alookup k (adel k m) = None.
Proof.
  rewrite nodup_keys_NoDup. induction m as [|[k2 v2] m IH]; simpl; intros H; auto.
  inversion H as [|? ? Hn Hd]; subst. destruct (str_eqb_spec k k2) as [->|Hne]; simpl.
  - now apply alookup_None.
  - destruct (str_eqb_spec k k2); [congruence|auto].
Qed.

Lemma alookup_adel_neq {A} k k' (m : list (str * A)) : k <> k' -> alookup k' (adel k m) = alookup k' m.
Proof.
  intros Hne. induction m as [|[k2 v2] m IH]; simpl; auto.
  destruct (str_eqb_spec k k2) as [->|Hne2]; simpl.
  - destruct (str_eqb_spec k' k2); [congruence|auto].
  - destruct (str_eqb_spec k' k2); auto.
Qed.

(** ---- sets ---- *)
Lemma smem_sadd k k' s : smem k' (sadd k s) = str_eqb k' k || smem k' s.
Proof.
  unfold sadd. destruct (smem k s) eqn:E.
  - destruct (str_eqb_spec k' k) as [->|]; simpl; auto.
  - induction s as [|x s IH]; simpl; [now rewrite orb_false_r|].
    simpl in E. apply orb_false_iff in E as [_ E]. rewrite (IH E). 
    destruct (str_eqb k' x), (str_eqb k' k); reflexivity.
Qed.

Lemma nodup_strs_sadd k s : nodup_strs s = true -> nodup_strs (sadd k s) = true.
Proof.
  unfold sadd. destruct (smem k s) eqn:E; auto.
  rewrite !nodup_strs_NoDup. intros H. 
  assert (Hk : ~ In k s) by (intros Hin; apply smem_In in Hin; congruence).
  clear E. induction s as [|x s IH]; simpl.
  - constructor; [tauto|constructor].
  - inversion H as [|? ? Hn Hd]; subst. constructor.
    + rewrite in_app_iff. simpl. intros [?|[?|[]]]; [tauto|]. subst. apply Hk. now left.
    + apply IH; auto. intros Hin; apply Hk; now right.
Qed.

(** ---- maps: get / assoc / dissoc / contains? / merge ---- *)
Theorem get_assoc_same m k v :
  b_assoc [VMap m; VStr k; v] = Ok (VMap (aset k v m)) /\ b_get [VMap (aset k v m); VStr k] = Ok v.
Proof. split; [reflexivity|]. simpl. unfold lookup_or_nil. now rewrite alookup_aset_eq. Qed.

Theorem get_assoc_other m k k' v :
  k <> k' -> b_get [VMap (aset k v m); VStr k'] = b_get [VMap m; VStr k'].
Proof. intros H. simpl. unfold lookup_or_nil. now rewrite alookup_aset_neq. Qed.

Theorem contains_assoc m k v : b_contains_Q [VMap (aset k v m); VStr k] = Ok (VBool true).
Proof. simpl. now rewrite alookup_aset_eq. Qed.

Theorem contains_dissoc_same m k :
  nodup_keys m = true ->
  b_dissoc [VMap m; VStr k] = Ok (VMap (adel k m)) /\ b_contains_Q [VMap (adel k m); VStr k] = Ok (VBool false).
Proof. intros H. split; [reflexivity|]. simpl. now rewrite alookup_adel_eq. Qed.

Theorem contains_dissoc_other m k k' :
  k <> k' -> b_contains_Q [VMap (adel k m); VStr k'] = b_contains_Q [VMap m; VStr k'].
Proof. intros H. simpl. now rewrite alookup_adel_neq. Qed.

Lemma fold_aset_lookup (m1 : list (str * val)) : forall m0 k,
  nodup_keys m1 = true ->
  alookup k (fold_left (fun acc kv => aset (fst kv) (snd kv) acc) m1 m0) =
  match alookup k m1 with Some v => Some v | None => alookup k m0 end.
Proof.
  induction m1 as [|[k1 v1] m1 IH]; intros m0 k Hnd; simpl; auto.
  simpl in Hnd. apply andb_true_iff in Hnd as [Hn Hnd]. rewrite IH; auto.
  destruct (str_eqb_spec k k1) as [->|Hne].
  - destruct (alookup k1 m1) eqn:E.
    + exfalso. apply negb_true_iff in Hn.
      assert (existsb (fun kv => str_eqb k1 (fst kv)) m1 = true); [|congruence].
      apply existsb_exists. exists (k1, v). split; [now apply alookup_In|apply str_eqb_refl].
    + apply alookup_aset_eq.
  - destruct (alookup k m1); auto. apply alookup_aset_neq; congruence.
Qed.

(** merge: the second map takes precedence, keys of the first survive otherwise *)
Theorem merge_lookup m0 m1 k :
  nodup_keys m1 = true ->
  exists m, b_merge [VMap m0; VMap m1] = Ok (VMap m) /\
            alookup k m = match alookup k m1 with Some v => Some v | None => alookup k m0 end.
Proof. intros H. eexists; split; [reflexivity|]. now apply fold_aset_lookup. Qed.

Theorem merge_nil : b_merge [VNil; VNil] = Ok VNil /\ (forall m, b_merge [VNil; VMap m] = Ok (VMap (fold_left (fun acc kv => aset (fst kv) (snd kv) acc) m []))) /\
                    (forall m, b_merge [VMap m; VNil] = Ok (VMap m)).
Proof. repeat split. Qed.

(** ---- sequences ---- *)
Theorem take_drop_concat n l p :
  exists a b, b_take [VInt n; VVec l p] = Ok (VList a None) /\ b_drop [VInt n; VVec l p] = Ok (VList b None) /\ a ++ b = l.
Proof. do 2 eexists; repeat split. apply firstn_skipn. Qed.

Theorem take_is_prefix n l p : b_take [VInt n; VList l p] = Ok (VList (firstn (Z.to_nat (Z.max 0 n)) l) None).
Proof. reflexivity. Qed.

Theorem first_rest_cons x l p :
  b_cons [x; VList l p] = Ok (VList (x :: l) None) /\
  b_first [VList (x :: l) None] = Ok x /\ b_rest [VList (x :: l) None] = Ok (VList l None).
Proof. repeat split. Qed.

Theorem first_rest_empty :
  b_first [VNil] = Ok VNil /\ b_first [VList [] None] = Ok VNil /\ b_rest [VNil] = Ok (VList [] None) /\ b_rest [VVec [] None] = Ok (VList [] None).
Proof. repeat split. Qed.

Theorem conj_kinds l p xs :
  b_conj (VList l p :: xs) = Ok (VList (rev xs ++ l) None) /\ b_conj (VVec l p :: xs) = Ok (VVec (l ++ xs) None).
Proof. split; reflexivity. Qed.

Theorem count_conj_vec l p x : b_conj [VVec l p; x] = Ok (VVec (l ++ [x]) None) /\ b_count [VVec (l ++ [x]) None] = Ok (VInt (Z.of_nat (length l) + 1)).
Proof. split; [reflexivity|]. simpl. rewrite app_length. simpl. f_equal. f_equal. lia. Qed.

Lemma index_nth {A} (l : list A) i x : nth_error l i = Some x -> index l (Z.of_nat i) = Ok x.
Proof.
  intros H. unfold index. destruct (Z.ltb_spec (Z.of_nat i) 0) as [Hlt|_]; [lia|]. rewrite Nat2Z.id.
  revert i H; induction l as [|y l IH]; intros [|i]; simpl; try discriminate; auto. intros [= ->]; auto.
Qed.

Theorem nth_in_range l p i x : nth_error l i = Some x -> b_nth [VList l p; VInt (Z.of_nat i)] = Ok x.
Proof.
  intros H. simpl. assert (Hlt : (i < length l)%nat) by (apply nth_error_Some; congruence).
  destruct (Z.ltb_spec (Z.of_nat i) (Z.of_nat (length l))); [|lia]. now apply index_nth.
Qed.

Theorem nth_out_of_range l p i : Z.of_nat (length l) <= i -> exists e, b_nth [VList l p; VInt i] = Err e.
Proof. intros H. simpl. destruct (Z.ltb_spec i (Z.of_nat (length l))); [lia|]. eexists; reflexivity. Qed.

(** subvec: exactly the window [from, to) when 0 <= from <= to <= length, an error otherwise *)
Theorem subvec_spec l p from to :
  (0 <= from <= to /\ to <= Z.of_nat (length l) ->
     b_subvec [VVec l p; VInt from; VInt to] = Ok (VVec (firstn (Z.to_nat (to - from)) (skipn (Z.to_nat from) l)) None)) /\
  (~ (0 <= from <= to /\ to <= Z.of_nat (length l)) -> exists e, b_subvec [VVec l p; VInt from; VInt to] = Err e).
Proof.
  split; intros H; unfold b_subvec; cbn [as_int bind].
  - destruct (Z.ltb_spec from 0); [lia|]. destruct (Z.ltb_spec (Z.of_nat (length l)) to); [lia|].
    destruct (Z.ltb_spec to from); [lia|]. cbn [orb]. unfold slice.
    destruct (Z.leb_spec 0 from); [|lia]. destruct (Z.leb_spec from to); [|lia].
    destruct (Z.leb_spec to (Z.of_nat (length l))); [|lia]. reflexivity.
  - destruct (Z.ltb_spec from 0); cbn [orb]; [eexists; reflexivity|].
    destruct (Z.ltb_spec (Z.of_nat (length l)) to); cbn [orb]; [eexists; reflexivity|].
    destruct (Z.ltb_spec to from); [eexists; reflexivity|]. lia.
Qed.

(** hash-map with an odd number of arguments, non-sequence arguments: errors *)
Theorem out_of_domain_errors :
  (forall k, exists e, b_hash_map [VStr k; VInt 1; VStr k] = Err e) /\
  (exists e, b_first [VInt 5] = Err e) /\ (exists e, b_count [VInt 5] = Err e) /\
  (forall x, exists e, b_conj [VInt 5; x] = Err e) /\ (forall l p, exists e, b_keys [VVec l p] = Err e) /\
  (forall l p, exists e, b_subvec [VList l p; VInt 0] = Err e).
Proof. repeat split; intros; eexists; reflexivity. Qed.

(** ---- well-formedness (distinct keys) is preserved: results of the map/set builtins on data are data ---- *)
Lemma assoc_pairs_data : forall kvs m m',
  nodup_keys m = true -> forallb (fun kv => data (snd kv)) m = true -> forallb data kvs = true ->
  assoc_pairs m kvs = Ok m' -> nodup_keys m' = true /\ forallb (fun kv => data (snd kv)) m' = true.
Proof.
  fix IH 1. intros [|k [|v r]] m m' Hn Hd Hk; simpl.
  - intros [= <-]; auto.
  - destruct k; discriminate.
  - destruct k; try discriminate. simpl in Hk. apply andb_true_iff in Hk as [Hv Hk].
    intros H. eapply (IH r); [| |exact Hk|exact H].
    + now apply nodup_keys_aset.
    + clear - Hd Hv. induction m as [|[k2 v2] m IHm]; simpl in *; [now rewrite Hv|].
      apply andb_true_iff in Hd as [? ?]. destruct (str_eqb s k2); simpl; rewrite ?Hv, ?H, ?IHm; auto.
Qed.

Theorem assoc_map_is_data m kvs v :
  data (VMap m) = true -> forallb data kvs = true -> b_assoc (VMap m :: kvs) = Ok v -> data v = true.
Proof.
  intros Hm Hk. simpl in Hm. apply andb_true_iff in Hm as [Hn Hd]. unfold b_assoc.
  destruct (Nat.ltb _ 3); [discriminate|]. destruct (Nat.even _); [discriminate|].
  destruct (assoc_pairs m kvs) as [m'| | |] eqn:E; try discriminate. intros [= <-]. simpl.
  destruct (assoc_pairs_data _ _ _ Hn Hd Hk E) as [-> ->]. reflexivity.
Qed.

Lemma del_keys_data : forall ks m m',
  nodup_keys m = true -> forallb (fun kv => data (snd kv)) m = true ->
  del_keys m ks = Ok m' -> nodup_keys m' = true /\ forallb (fun kv => data (snd kv)) m' = true.
Proof.
  induction ks as [|k ks IH]; intros m m' Hn Hd; simpl.
  - intros [= <-]; auto.
  - destruct k; try discriminate. apply IH.
    + now apply nodup_keys_adel.
    + clear - Hd. induction m as [|[k2 v2] m IHm]; simpl in *; auto.
      apply andb_true_iff in Hd as [? ?]. destruct (str_eqb s k2); simpl; rewrite ?H, ?IHm; auto.
Qed.

Theorem dissoc_map_is_data m ks v :
  data (VMap m) = true -> b_dissoc (VMap m :: ks) = Ok v -> data v = true.
Proof.
  intros Hm. simpl in Hm. apply andb_true_iff in Hm as [Hn Hd]. unfold b_dissoc.
  destruct (Nat.ltb _ 2); [discriminate|].
  destruct (del_keys m ks) as [m'| | |] eqn:E; try discriminate. intros [= <-]. simpl.
  destruct (del_keys_data _ _ _ Hn Hd E) as [-> ->]. reflexivity.
Qed.
