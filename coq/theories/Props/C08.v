(** C08 — tail calls use no host stack.
    [d] in [eval n d ast env] is the number of lisp.EVAL frames on the Go stack.  Each
    theorem is one iteration of EVAL's loop: the form in tail position is evaluated at the
    SAME depth d, sub-expressions at depth S d.  Only `exact`; proofs in EvalProofs.v. *)
From Lisp Require Import Base Value Core Binder Env Eval Interp EvalProofs TailProofs Run.
From Lisp.Gen Require Import Examples.

Theorem C08_if_branch_same_depth : forall n d c a b cur env st,
  macro_of st (VList [sy "if"; c; a; b] cur) env = None ->
  eval (S n) d (VList [sy "if"; c; a; b] cur) env st =
  prop (eval n (S d) c env st) (fun cv st' => if truthy cv then eval n d a env st' else eval n d b env st').
Proof. exact eval_if. Qed.

Theorem C08_do_last_same_depth : forall n d forms cur env st,
  macro_of st (VList (sy "do" :: forms) cur) env = None ->
  eval (S n) d (VList (sy "do" :: forms) cur) env st =
  prop (do_forms (eval n) d (sy "do" :: forms) 1 true env st) (fun last st' => eval n d last env st').
Proof. exact eval_do. Qed.

Theorem C08_closure_body_same_depth : forall n d s p args cur env st params body fenv vs st1,
  macro_of st (VList (VSym s p :: args) cur) env = None ->
  is_special s = false ->
  eval_list (eval n) d (VSym s p :: args) env st = (Ok (VFn params body fenv false :: vs), st1) ->
  eval (S n) d (VList (VSym s p :: args) cur) env st =
  match new_env_binds fenv params (VList vs None) st1 with
  | (Ok env', st2) => eval n d body env' st2
  | (Err e, st2) => (bind_error e body, st2)
  | (Panic x, st2) => (Panic x, st2)
  | (OutOfFuel, st2) => (OutOfFuel, st2)
  end.
Proof. exact eval_call_closure. Qed.

(** macros (cond, and, or ... are the repository's lisp text): the expansion is evaluated by
    the same loop iteration, at depth d; only the macro's own body ran at depth S d *)
Theorem C08_macro_expansion_same_depth : forall n d head p rest cur env st mac,
  macro_of st (VList (VSym head p :: rest) cur) env = Some mac ->
  eval (S n) d (VList (VSym head p :: rest) cur) env st =
  prop (macroexpand (eval n) (call_builtin n (eval n)) n d (VList (VSym head p :: rest) cur) env st)
       (fun ast' st' => eval_step (eval n) (eval n) (call_builtin n (eval n)) n d ast' env st').
Proof. exact eval_macro_call. Qed.

(** the last form of a let body runs at the depth of the let *)
Theorem C08_let_body_same_depth : forall n d a1 body cur env st,
  macro_of st (VList (sy "let" :: a1 :: body) cur) env = None ->
  eval (S n) d (VList (sy "let" :: a1 :: body) cur) env st =
  prop (new_env (Some env) st) (fun let_env st1 =>
  prop (lift (get_slice a1) st1) (fun arr st2 =>
  if Nat.odd (length arr) then (Err (lisp_goerr (s_ "let: odd elements on binding vector") (get_position a1)), st2) else
  prop (let_binds (eval n) d let_env a1 arr st2) (fun _ st3 =>
  prop (do_forms (eval n) d (sy "let" :: a1 :: body) 2 true let_env st3) (fun last st4 =>
  eval n d last let_env st4)))).
Proof. exact eval_let. Qed.

(** THE GENERAL STATEMENT.  [tail_step] = one hand-over of a sub-form to the same loop (selected
    branch of if, last form of do / let body / closure body, expansion of a macro call such as
    cond, and, or); [tail_steps] = any number of them, nested in any combination, spread over any
    number of functions (each closure call is one ts_call).  Along them the evaluation of the
    original form IS the evaluation of the form reached, at the same depth d: the number of
    lisp.EVAL frames on the host stack is the same at every iteration of such a loop. *)
Theorem C08_tail_step_same_depth : forall n d x env st n' y env' st',
  tail_step n d x env st n' y env' st' -> eval (S n) d x env st = eval n' d y env' st'.
Proof. exact tail_step_same_depth. Qed.

Theorem C08_tail_loops_use_no_stack : forall d n x env st n' y env' st',
  tail_steps d n x env st n' y env' st' -> eval n d x env st = eval n' d y env' st'.
Proof. exact tail_steps_same_depth. Qed.

(** Computed instances on the generated headers (tests, not the unbounded claim): the depth
    observed at the base case is the same for 0, 10 and 200 iterations, through if, cond,
    and/or, let+do, and mutual recursion; a non-tail call does grow. *)
Example C08_loop_if : observe ex_c08_if = s_ "V l 3 i 2 i 2 i 2 | l 0 ". Proof. vm_compute. reflexivity. Qed.
Example C08_loop_cond : observe ex_c08_cond = s_ "V l 3 i 2 i 2 i 2 | l 0 ". Proof. vm_compute. reflexivity. Qed.
Example C08_loop_and_or : observe ex_c08_and_or = s_ "V l 3 i 2 i 2 i 2 | l 0 ". Proof. vm_compute. reflexivity. Qed.
Example C08_loop_let_do : observe ex_c08_let_do = s_ "V l 3 i 2 i 2 i 2 | l 0 ". Proof. vm_compute. reflexivity. Qed.
Example C08_loop_mutual : observe ex_c08_mutual = s_ "V l 3 i 2 i 2 i 2 | l 0 ". Proof. vm_compute. reflexivity. Qed.
Example C08_nontail_grows : observe ex_c08_nontail = s_ "V l 2 i 2 i 5 | l 0 ". Proof. vm_compute. reflexivity. Qed.

Print Assumptions C08_if_branch_same_depth.
Print Assumptions C08_do_last_same_depth.
Print Assumptions C08_closure_body_same_depth.
Print Assumptions C08_macro_expansion_same_depth.
Print Assumptions C08_let_body_same_depth.
Print Assumptions C08_tail_step_same_depth.
Print Assumptions C08_tail_loops_use_no_stack.
