(** C18 — installing a debugger stepper does not change what programs compute. *)
From Lisp Require Import Base Value Core Binder Env Eval Interp Boot EvalProofs Run StepperSim.

(** THE property, for every program, scope, state, fuel and every script of the four commands: evaluating with a
    Stepper installed gives the outcome of evaluating without one, and the two final states are equal up to the
    debugger's own flags — same scopes and bindings, same atoms, same ordered trace of effects *)
Theorem C18_stepper_does_not_change_evaluation : forall n d ast env st,
  nobad st ->
  fst (eval_dbg n d ast env st) = fst (eval n d ast env (strip st)) /\
  snd (eval n d ast env (strip st)) = strip (snd (eval_dbg n d ast env st)).
Proof. exact stepper_does_not_change_evaluation. Qed.

Theorem C18_same_effects : forall n d ast env st,
  nobad st -> trace (snd (eval_dbg n d ast env st)) = trace (snd (eval n d ast env (strip st))) /\
              atoms (snd (eval_dbg n d ast env st)) = atoms (snd (eval n d ast env (strip st))) /\
              heap (snd (eval_dbg n d ast env st)) = heap (snd (eval n d ast env (strip st))).
Proof. exact stepper_same_trace. Qed.

(** the premise: any script over NoOp / Next / In / Out, from any starting flags *)
Theorem C18_every_script_of_the_four_commands : forall st cs,
  forallb okcmd cs = true -> nobad (set_dbg st (Some (mkDbg false false false cs []))).
Proof. exact nobad_script. Qed.

(** the debugger section of EVAL (callback, skip/outing flags, deferred resets) only decides
    whether the callback is consulted: the outcome of the invocation is the outcome of the rest
    of EVAL on a state that differs in the debugger flags only *)
Theorem C18_debugger_section_keeps_outcome : forall ast env body st g g1 nd,
  dbg st = Some g -> dbg_decide g ast env = (g1, nd, false) ->
  fst (dbg_entry ast env body st) = fst (body (set_dbg st (Some g1))).
Proof. exact dbg_entry_outcome. Qed.

(** ... and the decision is of that kind whenever the callback returns one of the four commands *)
Theorem C18_four_commands_never_bad : forall g ast env,
  (dskip g = true \/ match dcmds g with CBad :: _ => False | _ => True end) ->
  exists g1 nd, dbg_decide g ast env = (g1, nd, false).
Proof. exact dbg_decide_ok. Qed.

(** do()'s deferred flag reset (after an Out command) does not change do's outcome *)
Theorem C18_do_hook_keeps_outcome : forall (m : M val) st, fst (outing_hook m st) = fst (m st).
Proof. exact outing_hook_outcome. Qed.

(** without a Stepper both are the identity *)
Theorem C18_no_stepper_no_effect : forall ast env body st, dbg st = None -> dbg_entry ast env body st = body st.
Proof. exact dbg_entry_no_stepper. Qed.

(** the callback is handed exactly the form and the scope the invocation is about to evaluate *)
Theorem C18_callback_gets_form_and_scope : forall g ast env c cs,
  dskip g = false -> dcmds g = c :: cs -> c <> CBad ->
  exists g1 nd, dbg_decide g ast env = (g1, nd, false) /\ dlog g1 = (ast, env) :: dlog g /\ dcmds g1 = cs.
Proof. exact dbg_decide_logs_its_arguments. Qed.

(** a command outside the four is a host panic (the documented limit of the quantifier) *)
Theorem C18_bad_command_panics : forall ast env body st g cs,
  dbg st = Some g -> dskip g = false -> dcmds g = CBad :: cs ->
  exists s st', dbg_entry ast env body st = (Panic s, st').
Proof. exact dbg_entry_bad_command. Qed.

(** computed instance: try/catch/finally with a quoted handler result under the script
    [Out; NoOp; Out] gives the result and trace of the run without stepper *)
Definition c18_prog : val :=
  VList [sy "try"; VList [sy "trace!"; VInt 1] None; VList [sy "throw"; VInt 9] None;
         VList [sy "catch"; sy "e"; VList [sy "trace!"; VInt 2] None; VList [sy "quote"; VList [sy "+"; VInt 1; VInt 2] None] None] None;
         VList [sy "finally"; VList [sy "trace!"; VInt 3] None] None] None.
Example C18_same_result_with_script :
  let plain := eval RUN_FUEL 1 c18_prog ROOT init_state in
  let st0 := set_dbg init_state (Some (mkDbg false false false [COut; CNoOp; COut; CNext; CIn] [])) in
  let stepped := eval_dbg RUN_FUEL 1%nat c18_prog ROOT st0 in
  fst plain = fst stepped /\ trace (snd plain) = trace (snd stepped) /\
  fst plain = Ok (VList [sy "+"; VInt 1; VInt 2] None).
Proof. vm_compute. repeat split; reflexivity. Qed.

Print Assumptions C18_stepper_does_not_change_evaluation.
Print Assumptions C18_same_effects.
Print Assumptions C18_debugger_section_keeps_outcome.
Print Assumptions C18_do_hook_keeps_outcome.
Print Assumptions C18_callback_gets_form_and_scope.
Print Assumptions C18_bad_command_panics.
