(** Entry point of the extracted model driver: one case line in, one result line out.
    The first token selects the operation. *)
From Lisp Require Import Wire Equal Boot Binder.

Definition bad : list N := s_ "BADCASE".

Definition run_equal (ts : list tok) : list N :=
  match parse_values 2 ts with
  | Some ([a; b], []) =>
      match equalI a b with
      | Some true => s_ "T"
      | Some false => s_ "F"
      | None => s_ "P"
      end
  | _ => bad
  end.

(** outcome line: "V <value>" | "E <error value>" | "P" | "O" (out of fuel) *)
Definition show_outcome (o : outcome val) : list N :=
  match o with
  | Ok v => s_ "V " ++ show_val v
  | Err e => s_ "E " ++ show_val e
  | Panic _ => s_ "P "
  | OutOfFuel => s_ "O "
  end.

Definition RUN_FUEL : nat := 20000.

(** P <ast>: evaluate a position-less AST in a fresh initial environment;
    output: outcome | trace (oldest first) *)
Definition observe (ast : val) : list N :=
  let '(o, st) := eval RUN_FUEL 1 ast ROOT init_state in
  show_outcome o ++ s_ "| " ++ show_val (VList (rev (trace st)) None).

Definition run_program (ts : list tok) : list N :=
  match parse_value ts with
  | Some (ast, []) => observe ast
  | _ => bad
  end.

(** B <ctx> <nfixed> <ty..> <variadic> <nres> <ndecl> <decl..> <behaviour> <nargs> <args..>:
    one call through the reflective binder.  Output: R (registration panics) | A (count error)
    | T (type error) | C <outcome> (function entered) *)
Definition ty_of_code (z : Z) : ty :=
  if Z.eqb z 1 then TAny else if Z.eqb z 2 then TInt else if Z.eqb z 3 then TString
  else if Z.eqb z 4 then TVector else if Z.eqb z 5 then TBool else TOtherTy.

Fixpoint take_zs (n : nat) (ts : list tok) : option (list Z * list tok) :=
  match n with
  | O => Some ([], ts)
  | S n' => match ts with
            | TNum z :: r => match take_zs n' r with Some (l, r') => Some (z :: l, r') | None => None end
            | _ => None
            end
  end.

Definition run_binder (ts : list tok) : list N :=
  match ts with
  | TNum ctx :: TNum nf :: r =>
      match take_zs (Z.to_nat nf) r with
      | Some (fx, TNum va :: TNum nres :: TNum nd :: r1) =>
          match take_zs (Z.to_nat nd) r1 with
          | Some (decl, TNum beh :: TNum na :: r2) =>
              match parse_values (Z.to_nat na) r2 with
              | Some (args, []) =>
                  let sg := mkSig (Z.eqb ctx 1) (map ty_of_code fx)
                                  (if Z.eqb va 0 then None else Some (ty_of_code va)) (Z.to_nat nres) in
                  match bind sg decl with
                  | RegPanic _ => s_ "R"
                  | Bound mn mx =>
                      match gate sg mn mx args with
                      | Err e => match e with VLispErr (VStr _) _ => s_ "T" | _ => s_ "A" end
                      | Ok _ =>
                          let f := fun a : list val =>
                            if Z.eqb beh 0 then Ok (VInt (Z.of_nat (length a)))
                            else if Z.eqb beh 1 then Err (VGoErr (s_ "c20 sentinel"))
                            else Panic (s_ "c20 sentinel") in
                          match invoke sg mn mx f args with
                          | Ok v => s_ "C V " ++ show_val v
                          | Err _ => s_ "C E"
                          | _ => s_ "P"
                          end
                      | _ => s_ "P"
                      end
                  end
              | _ => bad
              end
          | _ => bad
          end
      | _ => bad
      end
  | _ => bad
  end.

Definition run_tokens (ts : list tok) : list N :=
  match ts with
  | TTag c :: r =>
      if N.eqb c (tagc "Q") then run_equal r
      else if N.eqb c (tagc "P") then run_program r
      else if N.eqb c (tagc "B") then run_binder r
      else bad
  | _ => bad
  end.

Definition run_line (bs : list N) : list N := run_tokens (lex_line bs).
