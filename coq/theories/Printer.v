(** printer/printer.go Pr_str, transcribed.  Maps and sets are printed in list order (Go:
    random iteration order; the correspondence check only prints collections of at most one
    entry through the interpreter, canonical comparisons go through Wire.show_val).
    Atoms print their identity only (their content lives in the evaluator state). *)
From Lisp Require Export Value Wire.

Definition LGUIL : N := 171%N.  (* « *)
Definition RGUIL : N := 187%N.  (* » *)

Fixpoint join (sep : str) (l : list str) : str :=
  match l with
  | [] => []
  | [x] => x
  | x :: r => x ++ sep ++ join sep r
  end.

(** strings.Replace(s, old, new, -1) for a one-character old *)
Definition replace1 (c : N) (new : str) (s : str) : str :=
  concat (map (fun x => if N.eqb x c then new else [x]) s).

Definition has_newline (s : str) : bool := existsb (N.eqb 10) s.

(** the readable form of a (non-keyword) string *)
Definition json_looking (s : str) : bool :=
  prefix_of (s_ "{""") s && suffix_of (s_ "}") s && negb (has_newline s).

Definition escape_str (s : str) : str :=
  replace1 10 (s_ "\n") (replace1 34 [92; 34]%N (replace1 92 [92; 92]%N s)).

Definition pr_string (readably : bool) (s : str) : str :=
  match s with
  | c :: rest => if N.eqb c KW then 58%N :: rest   (* ":" + tobj[2:] *)
                 else if readably then
                   if json_looking s then RAWQ :: replace1 RAWQ [RAWQ; RAWQ] s ++ [RAWQ]
                   else 34%N :: escape_str s ++ [34%N]
                 else s
  | [] => if readably then [34; 34]%N else []
  end.

Fixpoint pr_str (readably : bool) (v : val) {struct v} : str :=
  match v with
  | VNil => s_ "nil"
  | VBool true => s_ "true"
  | VBool false => s_ "false"
  | VInt z => show_Z z
  | VStr s => pr_string readably s
  | VSym s _ => s
  | VList l _ => s_ "(" ++ join (s_ " ") (map (pr_str readably) l) ++ s_ ")"
  | VVec l _ => s_ "[" ++ join (s_ " ") (map (pr_str readably) l) ++ s_ "]"
  | VMap m =>
      s_ "{" ++ join (s_ " ") (concat (map (fun kv => [pr_string readably (fst kv); pr_str readably (snd kv)]) m)) ++ s_ "}"
  | VSet ks => s_ "#{" ++ join (s_ " ") (map (pr_string readably) ks) ++ s_ "}"
  | VFn ps body _ _ => s_ "(fn " ++ pr_str true ps ++ s_ " " ++ pr_str true body ++ s_ ")"
  | VBuiltin n => LGUIL :: s_ "function " ++ n ++ [RGUIL]
  | VAtom _ => LGUIL :: s_ "atom" ++ [RGUIL]
  | VGoErr m => LGUIL :: s_ "go-error " ++ pr_string true m ++ [RGUIL]
  | VLispErr p _ => LGUIL :: s_ "error " ++ pr_str true p ++ [RGUIL]
  | VOther t => t
  end.

(** printer.Pr_list *)
Definition pr_list (readably : bool) (sep : str) (l : list val) : str :=
  join sep (map (pr_str readably) l).

(** core.pr_str / core.str *)
Definition b_pr_str (a : list val) : outcome val := Ok (VStr (pr_list true (s_ " ") a)).
Definition b_str (a : list val) : outcome val := Ok (VStr (pr_list false [] a)).
