(** Wire format shared by the Go harness and the model driver: a line is a sequence of
    space-separated tokens, each a decimal number or a one-letter tag.  The parser and the
    canonical printer live here, inside Coq, so that the extracted driver is glue only and
    the very same functions can be evaluated with vm_compute for the cross-check. *)
From Lisp Require Export Value.

Inductive tok := TNum (z : Z) | TTag (c : N).

Definition is_digit (c : N) : bool := (N.leb 48 c && N.leb c 57)%N.

(** tokenise a line of bytes *)
Fixpoint lex_num (acc : Z) (bs : list N) : Z * list N :=
  match bs with
  | c :: r => if is_digit c then lex_num (acc * 10 + Z.of_N (c - 48)) r else (acc, bs)
  | [] => (acc, [])
  end.

Fixpoint lex (fuel : nat) (bs : list N) : list tok :=
  match fuel with
  | O => []
  | S fuel' =>
      match bs with
      | [] => []
      | c :: r =>
          if N.eqb c 32 then lex fuel' r
          else if is_digit c then let '(z, r') := lex_num 0 bs in TNum z :: lex fuel' r'
          else if N.eqb c 45 (* - *) then let '(z, r') := lex_num 0 r in TNum (- z) :: lex fuel' r'
          else TTag c :: lex fuel' r
      end
  end.

Definition lex_line (bs : list N) : list tok := lex (S (length bs)) bs.

Fixpoint take_nums (n : nat) (ts : list tok) : option (list N * list tok) :=
  match n with
  | O => Some ([], ts)
  | S n' =>
      match ts with
      | TNum z :: r =>
          match take_nums n' r with
          | Some (l, r') => Some (Z.to_N z :: l, r')
          | None => None
          end
      | _ => None
      end
  end.

Definition parse_str (ts : list tok) : option (str * list tok) :=
  match ts with
  | TNum n :: r => take_nums (Z.to_nat n) r
  | _ => None
  end.

Fixpoint parse_strs (n : nat) (ts : list tok) : option (list str * list tok) :=
  match n with
  | O => Some ([], ts)
  | S n' =>
      match parse_str ts with
      | Some (s, r) => match parse_strs n' r with Some (l, r') => Some (s :: l, r') | None => None end
      | None => None
      end
  end.

Definition tagc (c : string) : N := match s_ c with x :: _ => x | [] => 0%N end.
Arguments tagc c%string.

Fixpoint parse_val (fuel : nat) (ts : list tok) {struct fuel} : option (val * list tok) :=
  match fuel with
  | O => None
  | S fuel' =>
      let parse_vals :=
        fix go (n : nat) (ts : list tok) {struct n} : option (list val * list tok) :=
          match n with
          | O => Some ([], ts)
          | S n' =>
              match parse_val fuel' ts with
              | Some (v, r) => match go n' r with Some (l, r') => Some (v :: l, r') | None => None end
              | None => None
              end
          end in
      let parse_kvs :=
        fix go (n : nat) (ts : list tok) {struct n} : option (list (str * val) * list tok) :=
          match n with
          | O => Some ([], ts)
          | S n' =>
              match parse_str ts with
              | Some (k, r) =>
                  match parse_val fuel' r with
                  | Some (v, r1) => match go n' r1 with Some (l, r') => Some ((k, v) :: l, r') | None => None end
                  | None => None
                  end
              | None => None
              end
          end in
      match ts with
      | TTag c :: r =>
          if N.eqb c (tagc "n") then Some (VNil, r)
          else if N.eqb c (tagc "t") then Some (VBool true, r)
          else if N.eqb c (tagc "f") then Some (VBool false, r)
          else if N.eqb c (tagc "i") then match r with TNum z :: r' => Some (VInt z, r') | _ => None end
          else if N.eqb c (tagc "s") then match parse_str r with Some (s, r') => Some (VStr s, r') | None => None end
          else if N.eqb c (tagc "y") then match parse_str r with Some (s, r') => Some (VSym s None, r') | None => None end
          else if N.eqb c (tagc "o") then match parse_str r with Some (s, r') => Some (VOther s, r') | None => None end
          else if N.eqb c (tagc "g") then match parse_str r with Some (s, r') => Some (VGoErr s, r') | None => None end
          else if N.eqb c (tagc "l") then
            match r with TNum n :: r' => match parse_vals (Z.to_nat n) r' with Some (l, r2) => Some (VList l None, r2) | None => None end | _ => None end
          else if N.eqb c (tagc "v") then
            match r with TNum n :: r' => match parse_vals (Z.to_nat n) r' with Some (l, r2) => Some (VVec l None, r2) | None => None end | _ => None end
          else if N.eqb c (tagc "m") then
            match r with TNum n :: r' => match parse_kvs (Z.to_nat n) r' with Some (l, r2) => Some (VMap l, r2) | None => None end | _ => None end
          else if N.eqb c (tagc "e") then
            match r with TNum n :: r' => match parse_strs (Z.to_nat n) r' with Some (l, r2) => Some (VSet l, r2) | None => None end | _ => None end
          else if N.eqb c (tagc "x") then
            match parse_val fuel' r with Some (v, r') => Some (VLispErr v None, r') | None => None end
          else None
      | _ => None
      end
  end.

Definition parse_value (ts : list tok) : option (val * list tok) := parse_val (S (length ts)) ts.

Fixpoint parse_values (n : nat) (ts : list tok) : option (list val * list tok) :=
  match n with
  | O => Some ([], ts)
  | S n' =>
      match parse_value ts with
      | Some (v, r) => match parse_values n' r with Some (l, r') => Some (v :: l, r') | None => None end
      | None => None
      end
  end.

(** ---- printing ---- *)
From Coq Require Import DecimalZ.

Fixpoint digits_of_uint (d : Decimal.uint) : list N :=
  match d with
  | Decimal.Nil => []
  | Decimal.D0 r => 48%N :: digits_of_uint r | Decimal.D1 r => 49%N :: digits_of_uint r
  | Decimal.D2 r => 50%N :: digits_of_uint r | Decimal.D3 r => 51%N :: digits_of_uint r
  | Decimal.D4 r => 52%N :: digits_of_uint r | Decimal.D5 r => 53%N :: digits_of_uint r
  | Decimal.D6 r => 54%N :: digits_of_uint r | Decimal.D7 r => 55%N :: digits_of_uint r
  | Decimal.D8 r => 56%N :: digits_of_uint r | Decimal.D9 r => 57%N :: digits_of_uint r
  end.

Definition show_Z (z : Z) : list N :=
  match Z.to_int z with
  | Decimal.Pos d => digits_of_uint d
  | Decimal.Neg d => 45%N :: digits_of_uint d
  end.

Definition sp : list N := [32%N].
Definition show_nat (n : nat) : list N := show_Z (Z.of_nat n).
Definition show_str (s : str) : list N :=
  show_nat (length s) ++ sp ++ concat (map (fun c => show_Z (Z.of_N c) ++ sp) s).

(** insertion sort by key, for canonical output of maps and sets *)
Fixpoint ins_kv {A} (kv : str * A) (l : list (str * A)) : list (str * A) :=
  match l with
  | [] => [kv]
  | x :: r => if str_ltb (fst kv) (fst x) then kv :: l else x :: ins_kv kv r
  end.
Definition sort_kvs {A} (l : list (str * A)) : list (str * A) := fold_right ins_kv [] l.
Fixpoint ins_s (k : str) (l : list str) : list str :=
  match l with
  | [] => [k]
  | x :: r => if str_ltb k x then k :: l else x :: ins_s k r
  end.
Definition sort_strs (l : list str) : list str := fold_right ins_s [] l.

Definition tg (c : string) : list N := s_ c ++ sp.
Arguments tg c%string.

Fixpoint show_val (v : val) : list N :=
  match v with
  | VNil => tg "n"
  | VBool true => tg "t"
  | VBool false => tg "f"
  | VInt z => tg "i" ++ show_Z z ++ sp
  | VStr s => tg "s" ++ show_str s
  | VSym s _ => tg "y" ++ show_str s
  | VList l _ => tg "l" ++ show_nat (length l) ++ sp ++ concat (map show_val l)
  | VVec l _ => tg "v" ++ show_nat (length l) ++ sp ++ concat (map show_val l)
  | VMap m =>
      tg "m" ++ show_nat (length m) ++ sp ++
      concat (map (fun kv => show_str (fst kv) ++ snd kv) (sort_kvs (map (fun kv => (fst kv, show_val (snd kv))) m)))
  | VSet ks => tg "e" ++ show_nat (length ks) ++ sp ++ concat (map show_str (sort_strs ks))
  | VFn _ _ _ _ => tg "F"
  | VBuiltin _ => tg "B"
  | VAtom _ => tg "A"
  | VGoErr _ => tg "G"
  | VLispErr p _ => tg "x" ++ show_val p
  | VOther _ => tg "O"
  end.
