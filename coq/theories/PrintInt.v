(** C06, integers: the decimal numeral the printer writes (Coq's Decimal conversion, as Go's
    strconv.Itoa) has no leading zero, scans as one Int token and parses back to the number. *)
From Coq Require Import Decimal DecimalFacts DecimalPos.
From Lisp Require Import Base Value Core Scanner Reader Printer Wire PrintScan.
Local Open Scope N_scope.

Lemma digits_all_dec d : all_dec (digits_of_uint d) = true.
Proof. induction d; simpl; auto. Qed.

Lemma nzhead_D0 x y : nzhead x = D0 y -> False.
Proof. induction x; simpl; intros H; try discriminate; auto. Qed.

Lemma unorm_D0 x y : unorm x = D0 y -> y = Nil.
Proof.
  unfold unorm. destruct (nzhead x) eqn:E; intros H; try discriminate.
  - inversion H. reflexivity.
  - exfalso. eapply nzhead_D0; eauto.
Qed.

Lemma to_uint_unorm p : unorm (Pos.to_uint p) = Pos.to_uint p.
Proof.
  pose proof (Unsigned.to_of (Pos.to_uint p)) as H. rewrite Unsigned.of_to in H. simpl in H. symmetry. exact H.
Qed.

Lemma to_uint_head p :
  match Pos.to_uint p with Nil => False | D0 _ => False | _ => True end.
Proof.
  destruct (Pos.to_uint p) eqn:E; auto.
  - eapply Unsigned.to_uint_nonnil; eauto.
  - pose proof (to_uint_unorm p) as H. rewrite E in H.
    assert (G : unorm (D0 u) = unorm u) by reflexivity. rewrite G in H.
    apply unorm_D0 in H. subst u. eapply Unsigned.to_uint_nonzero; eauto.
Qed.

Lemma numeral_pos p : numeral_ok (digits_of_uint (Pos.to_uint p)) = true.
Proof.
  pose proof (to_uint_head p) as H. destruct (Pos.to_uint p) eqn:E; try contradiction;
    simpl; apply digits_all_dec.
Qed.

Lemma show_Z_cases z :
  (z = 0%Z /\ show_Z z = [48]) \/
  (exists p, z = Zpos p /\ show_Z z = digits_of_uint (Pos.to_uint p)) \/
  (exists p, z = Zneg p /\ show_Z z = 45 :: digits_of_uint (Pos.to_uint p)).
Proof. destruct z; [left | right; left | right; right]; eauto. Qed.

Theorem int_UP z : UP (mkU (show_Z z) [(KInt, show_Z z)]).
Proof.
  destruct (show_Z_cases z) as [[_ ->]|[[p [_ ->]]|[p [_ ->]]]].
  - apply numeral_UP. reflexivity.
  - apply numeral_UP, numeral_pos.
  - apply neg_numeral_UP, numeral_pos.
Qed.

(** ---- parsing back ---- *)
Lemma digits_value_acc : forall d acc,
  digits_value 10 (digits_of_uint d) (Zpos acc) = Some (Zpos (Pos.of_uint_acc d acc)).
Proof.
  induction d; intros acc; cbn [digits_of_uint digits_value Pos.of_uint_acc]; try reflexivity;
    change (N.eqb _ 95) with false; cbn iota;
    match goal with |- context [Z.ltb ?a 10] => change (Z.ltb a 10) with true end; cbn iota;
    rewrite <- IHd; f_equal;
    match goal with |- context [digit_val ?c] => let v := eval vm_compute in (digit_val c) in change (digit_val c) with v end;
    simpl Z.of_N; lia.
Qed.

Lemma digits_value_pos p : digits_value 10 (digits_of_uint (Pos.to_uint p)) 0%Z = Some (Zpos p).
Proof.
  pose proof (to_uint_head p) as Hh. pose proof (Unsigned.of_to p) as Ho.
  destruct (Pos.to_uint p) eqn:E; try contradiction; cbn [digits_of_uint digits_value];
    change (N.eqb _ 95) with false; cbn iota;
    match goal with |- context [Z.ltb ?a 10] => change (Z.ltb a 10) with true end; cbn iota;
    simpl in Ho; inversion Ho as [Hp];
    match goal with |- digits_value 10 _ ?a = _ => change a with (Zpos (Z.to_pos a)) end;
    rewrite digits_value_acc; reflexivity.
Qed.

Lemma parse_numeral_pos p : in_int64 (Zpos p) = true ->
  parse_int (digits_of_uint (Pos.to_uint p)) = Some (Zpos p).
Proof.
  intros Hi. pose proof (to_uint_head p) as Hh. pose proof (digits_value_pos p) as Hv.
  unfold parse_int.
  destruct (Pos.to_uint p) eqn:E; try contradiction; cbn [digits_of_uint] in *;
    cbv iota; rewrite Hv; rewrite Hi; reflexivity.
Qed.

Lemma parse_numeral_neg p : in_int64 (Zneg p) = true ->
  parse_int (45 :: digits_of_uint (Pos.to_uint p)) = Some (Zneg p).
Proof.
  intros Hi. pose proof (to_uint_head p) as Hh. pose proof (digits_value_pos p) as Hv.
  unfold parse_int.
  destruct (Pos.to_uint p) eqn:E; try contradiction; cbn [digits_of_uint] in *;
    cbv iota; rewrite Hv; change (- Z.pos p)%Z with (Zneg p); rewrite Hi; reflexivity.
Qed.

Theorem parse_show_Z z : in_int64 z = true -> parse_int (show_Z z) = Some z.
Proof.
  intros Hi. destruct z as [|p|p].
  - reflexivity.
  - apply parse_numeral_pos, Hi.
  - apply parse_numeral_neg, Hi.
Qed.
