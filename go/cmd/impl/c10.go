package main

import (
	"context"
	"fmt"
	"sort"
	"strings"
	"sync/atomic"
	"time"

	"github.com/jig/lisp/types"
	. "verif.local/harness/h"
)

func init() { runners["C10"] = runC10 }

type futOp struct {
	opc, arg int // 0 deref (arg 1: expiring context), 1 status (arg 1 done?, 0 cancelled?), 2 cancel
	src      string
	timeout  time.Duration
}

var futBodies = []struct{ tag, src string }{
	{"body:value", "42"},
	{"body:value-after-sleep", "(do (sleep 3) 7)"},
	{"body:throws", "(throw {:err 1})"},
	{"body:throws-after-sleep", "(do (sleep 3) (throw \"late\"))"},
	{"body:builtin-error", "(nth [] 3)"},
	{"body:long-sleep", "(do (sleep 60) :slept)"},
	{"body:catches-its-cancellation", "(try (do (sleep 60) :slept) (catch e :swallowed))"},
	{"body:ignores-cancellation", "(do (hard-sleep! 400) :late)"},
	{"body:nil-value", "nil"},
	{"body:nil-value-after-sleep", "(do (sleep 3) nil)"},
	// the body's value IS the result of a builtin that ignores its context: it completes normally although cancelled meanwhile
	{"body:ignores-cancellation-and-completes", "(hard-sleep! 120)"},
	{"body:loops-until-cancelled", "(do (def spin (fn [n] (if (< n 0) n (spin (+ n 1))))) (spin 0))"},
}

func runC10(tier string, seed uint64, rep *Report) {
	defer c10ContextScenarios(rep, tier)
	rep.Rule = "rounds: one future whose body is a value, a throw, a builtin error, each at once or after a sleep, a long sleep, a body that catches its own cancellation, a loop that only cancellation ends; " +
		"2-4 harness threads each issue 2-4 of @f (with and without an expiring context), (future-done? f), (future-cancelled? f), (future-cancel f) through lisp.EVAL, released together right after the " +
		"future is created; every call is stamped at invocation and response on a global logical clock. Then the main thread waits for future-done?, derefs with no deadline under a watchdog, and reads both flags. " +
		"The timed history goes to the model driver (op F): ConcFuture.fhist_ok, the executable C10 clauses proved of every history of the model. Direct oracle: the body's trace! ran at most once (exactly once unless " +
		"cancelled), the final deref returns, a cancel that returns true after a reader already had the value needs an earlier cancel, no Go panic. Run under the Go race detector. " +
		"Non-trivial: the history contains a cancel or a status call concurrent with the completion of the body."
	r := NewRng(seed)
	rounds := 400
	if tier == "thorough" {
		rounds = 4000
	}
	var clock atomic.Int64
	for round := 0; round < rounds; round++ {
		w, err := NewWorld()
		if err != nil {
			panic(err)
		}
		body := futBodies[r.Intn(len(futBodies))]
		if body.tag == "body:loops-until-cancelled" && r.Intn(3) != 0 {
			body = futBodies[r.Intn(5)]
		}
		// the second half of the run concentrates on callers whose deadline falls together with the
		// completion of the body: many expiring readers, each followed by a patient one
		storm := round >= rounds/2
		if storm {
			body = futBodies[1+2*r.Intn(2)]
		}
		rep.Histogram[body.tag]++
		nth := 2 + r.Intn(3)
		if storm {
			nth = 6
		}
		var progs [][]ThreadOp
		var ops [][]futOp
		hasCancel := false
		racing := strings.Contains(body.tag, "after-sleep") && (storm || r.Intn(2) == 0)
		if racing {
			rep.Histogram["round:deadline-races-completion"]++
		}
		for t := 0; t < nth; t++ {
			n := 2 + r.Intn(3)
			var p []ThreadOp
			var o []futOp
			for k := 0; k < n; k++ {
				var op futOp
				x := r.Intn(10)
				if storm {
					x = 2 - 2*(k%2) // expiring reader, then patient reader, ...
				}
				switch {
				case x < 2:
					op = futOp{opc: 0, arg: 0, src: "@f"}
				case x < 4:
					op = futOp{opc: 0, arg: 1, src: "@f", timeout: time.Duration(1+r.Intn(4)) * time.Millisecond}
					if racing {
						// the caller's deadline and the completion of the body fall together
						op.timeout = 3*time.Millisecond + time.Duration(r.Intn(600))*time.Microsecond
					}
				case x < 6:
					op = futOp{opc: 1, arg: 1, src: "(future-done? f)"}
				case x < 8:
					op = futOp{opc: 1, arg: 0, src: "(future-cancelled? f)"}
				default:
					op = futOp{opc: 2, src: "(future-cancel f)"}
					hasCancel = true
				}
				rep.Histogram["op:"+op.src+map[bool]string{true: " (expiring context)", false: ""}[op.arg == 1 && op.opc == 0]]++
				o = append(o, op)
				top := ThreadOp{Src: op.src}
				if op.timeout > 0 {
					d := op.timeout
					top.Ctx = func() (context.Context, context.CancelFunc) { return context.WithTimeout(context.Background(), d) }
				}
				p = append(p, top)
			}
			progs = append(progs, p)
			ops = append(ops, o)
		}
		// bodies that never end by themselves need a cancel, and no patient reader before it
		if body.tag == "body:loops-until-cancelled" {
			for t := range ops {
				for k := range ops[t] {
					if ops[t][k].opc == 0 && ops[t][k].arg == 0 {
						ops[t][k] = futOp{opc: 1, arg: 1, src: "(future-done? f)"}
						progs[t][k] = ThreadOp{Src: "(future-done? f)"}
					}
				}
			}
			ops[0][0] = futOp{opc: 2, src: "(future-cancel f)"}
			progs[0][0] = ThreadOp{Src: "(future-cancel f)"}
			hasCancel = true
		}
		// a body that ignores cancellation: cancel it, then a reader with a short deadline must still get its timeout on time
		if body.tag == "body:ignores-cancellation-and-completes" {
			// cancel while it runs; after it has completed the flags must still say cancelled
			ops[0][0] = futOp{opc: 2, src: "(future-cancel f)"}
			progs[0][0] = ThreadOp{Src: "(future-cancel f)"}
			hasCancel = true
		}
		if body.tag == "body:ignores-cancellation" && len(ops[0]) >= 2 {
			ops[0][0] = futOp{opc: 2, src: "(future-cancel f)"}
			progs[0][0] = ThreadOp{Src: "(future-cancel f)"}
			d := time.Duration(2+r.Intn(6)) * time.Millisecond
			ops[0][1] = futOp{opc: 0, arg: 1, src: "@f", timeout: d}
			progs[0][1] = ThreadOp{Src: "@f", Ctx: func() (context.Context, context.CancelFunc) { return context.WithTimeout(context.Background(), d) }}
			hasCancel = true
		}
		src := "(def f (future (do (trace! :run) " + body.src + ")))"
		if o := w.EvalText(context.Background(), src); o.Err != nil || o.Panic != nil {
			panic(fmt.Sprint("harness: cannot create future: ", o.Err, o.Panic))
		}
		if !racing && r.Intn(3) == 0 {
			time.Sleep(time.Duration(r.Intn(5)) * time.Millisecond) // some rounds start after the body has finished
		}
		base := clock.Load()
		calls, hung := RunThreads(w, &clock, progs, 20*time.Second)
		describe := func(c TimedCall) string {
			if c.Err != nil {
				return "error " + c.Err.Error()
			}
			return Show(c.Val)
		}
		listing := func(sep string) string {
			var b strings.Builder
			b.WriteString(src + sep)
			for t, p := range progs {
				fmt.Fprintf(&b, "thread %d:", t)
				for k, op := range p {
					fmt.Fprintf(&b, "  %s", op.Src)
					if ops[t][k].timeout > 0 {
						fmt.Fprintf(&b, " {ctx %v}", ops[t][k].timeout)
					}
					if k < len(calls[t]) {
						c := calls[t][k]
						fmt.Fprintf(&b, " => %s [%d,%d]", describe(c), c.Inv-base, c.Resp-base)
					} else {
						b.WriteString(" => (no response)")
					}
				}
				b.WriteString(sep)
			}
			return b.String()
		}
		if hung {
			idx := rep.Add("F 0", "ok", "round "+fmt.Sprint(round), true, "round:hung")
			rep.Violate(idx, "future operations did not finish within 20s", listing("\n"))
			emergencyFlush(rep)
		}
		// ---- the main thread: wait for done, deref without deadline, read the flags
		type rec struct {
			tid, opc, arg, rk, rv int
			inv, resp             int64
			text                  string
		}
		var recs []rec
		outcomes := map[string]int{}
		code := func(s string) int {
			if c, ok := outcomes[s]; ok {
				return c
			}
			outcomes[s] = len(outcomes) + 1
			return outcomes[s]
		}
		mainEval := func(opc, arg int, srcOp string, watchdog time.Duration) (TimedCall, bool) {
			ch := make(chan TimedCall, 1)
			go func() {
				c := TimedCall{Tid: len(progs), Src: srcOp}
				c.Inv = clock.Add(1)
				o := w.EvalText(context.Background(), srcOp)
				c.Resp = clock.Add(1)
				c.Val, c.Err, c.Panic = o.Val, o.Err, o.Panic
				ch <- c
			}()
			select {
			case c := <-ch:
				return c, true
			case <-time.After(watchdog):
				return TimedCall{}, false
			}
		}
		var finals []TimedCall
		var finalOps []futOp
		deadline := time.Now().Add(5 * time.Second)
		for {
			c, ok := mainEval(1, 1, "(future-done? f)", 5*time.Second)
			if !ok {
				idx := rep.Add("F 0", "ok", "round "+fmt.Sprint(round), true, "round:hung")
				rep.Violate(idx, "(future-done? f) did not return within 5s", listing("\n"))
				emergencyFlush(rep)
			}
			finals = append(finals, c)
			finalOps = append(finalOps, futOp{opc: 1, arg: 1, src: c.Src})
			if b, _ := c.Val.(bool); b || time.Now().After(deadline) {
				break
			}
			time.Sleep(2 * time.Millisecond)
		}
		if body.tag == "body:loops-until-cancelled" && !hasCancel {
			panic("harness: endless body without cancel")
		}
		c, ok := mainEval(0, 0, "@f", 5*time.Second)
		if !ok {
			idx := rep.Add("F 0", "ok", "round "+fmt.Sprint(round), true, "round:final-deref-hung")
			rep.Violate(idx, "a deref with no deadline, issued after the future reported done, did not return within 5s: the outcome was lost or never delivered", listing("\n")+"main:  (future-done? f) => true   @f => (no response)")
			emergencyFlush(rep)
		}
		finals = append(finals, c)
		finalOps = append(finalOps, futOp{opc: 0, arg: 0, src: "@f"})
		for _, s := range []struct {
			src string
			arg int
		}{{"(future-done? f)", 1}, {"(future-cancelled? f)", 0}} {
			c, _ := mainEval(1, s.arg, s.src, 5*time.Second)
			finals = append(finals, c)
			finalOps = append(finalOps, futOp{opc: 1, arg: s.arg, src: s.src})
		}
		all := append([][]TimedCall{}, calls...)
		all = append(all, finals)
		allOps := append([][]futOp{}, ops...)
		allOps = append(allOps, finalOps)
		broken := false
		for t := range all {
			for k, c := range all[t] {
				op := allOps[t][k]
				// a deref blocks until the outcome is available OR THE CALLER'S CONTEXT ENDS
				if op.opc == 0 && op.timeout > 0 && c.Took > op.timeout+200*time.Millisecond {
					idx := rep.Add("F 0", "ok", "round "+fmt.Sprint(round), true)
					rep.Violate(idx, fmt.Sprintf("a deref whose context ended after %v returned only after %v", op.timeout, c.Took), listing("\n"))
				}
				rc := rec{tid: t, opc: op.opc, arg: op.arg, inv: c.Inv - base, resp: c.Resp - base, text: fmt.Sprintf("%s => %s", op.src, describe(c))}
				if c.Panic != nil {
					idx := rep.Add("F 0", "ok", "round "+fmt.Sprint(round), true)
					rep.Violate(idx, fmt.Sprintf("a Go panic escaped from %s: %v", op.src, c.Panic), listing("\n"))
					broken = true
					continue
				}
				switch op.opc {
				case 0:
					d := describe(c)
					if op.arg == 1 && c.Err != nil && strings.Contains(d, "timeout while") {
						// the caller's own context ended (in EVAL's poll or in Deref's select). When the future's outcome is
						// itself a timeout error (a cancelled body) the two cannot be told apart from the text: such a call is
						// always booked as the caller's timeout, which the clauses allow at any time
						rc.rk = 1
					} else {
						rc.rk, rc.rv = 0, code(d)
					}
				default:
					b, isBool := c.Val.(bool)
					if c.Err != nil || !isBool {
						idx := rep.Add("F 0", "ok", "round "+fmt.Sprint(round), true)
						rep.Violate(idx, fmt.Sprintf("%s returned %s instead of a boolean", op.src, d2(c)), listing("\n"))
						broken = true
						continue
					}
					rc.rk = 2
					if b {
						rc.rv = 1
					}
				}
				recs = append(recs, rc)
			}
		}
		if broken {
			continue
		}
		// body executions
		runs := 0
		for _, v := range w.TraceSnapshot() {
			if s, ok := v.(string); ok && s == Kw("run") {
				runs++
			}
		}
		cancelledTrue := false
		for _, rc := range recs {
			if rc.opc == 2 && rc.rv == 1 {
				cancelledTrue = true
			}
		}
		if runs > 1 || (runs == 0 && !cancelledTrue) {
			idx := rep.Add("F 0", "ok", "round "+fmt.Sprint(round), true)
			rep.Violate(idx, fmt.Sprintf("the body of the future was evaluated %d times", runs), listing("\n"))
		}
		// a cancel that returns true after a reader already held the value needs an earlier cancel
		for _, c := range recs {
			if c.opc != 2 || c.rv != 1 {
				continue
			}
			for _, d := range recs {
				if d.opc == 0 && d.rk == 0 && d.resp < c.inv && !strings.Contains(d.text, "error") {
					earlier := false
					for _, c2 := range recs {
						if c2.opc == 2 && c2.inv < d.resp {
							earlier = true
						}
					}
					if !earlier {
						idx := rep.Add("F 0", "ok", "round "+fmt.Sprint(round), true)
						rep.Violate(idx, "future-cancel returned true on a future that had completed (a reader already had its value) without having been cancelled", listing("\n"))
					}
				}
			}
		}
		sort.Slice(recs, func(a, b int) bool { return recs[a].inv < recs[b].inv })
		var b strings.Builder
		fmt.Fprintf(&b, "F %d ", len(recs))
		interesting := false
		for _, rc := range recs {
			fmt.Fprintf(&b, "%d %d %d %d %d %d %d ", rc.tid, rc.opc, rc.arg, rc.rk, rc.rv, rc.inv, rc.resp)
			if rc.opc == 2 || (rc.opc == 1 && rc.rv == 0 && rc.arg == 1) {
				interesting = true
			}
		}
		var mainTxt []string
		for _, c := range finals {
			mainTxt = append(mainTxt, fmt.Sprintf("%s => %s [%d,%d]", c.Src, describe(c), c.Inv-base, c.Resp-base))
		}
		rep.Add(strings.TrimSpace(b.String()), "ok", listing(" ;; ")+"main: "+strings.Join(mainTxt, "  "), interesting,
			fmt.Sprintf("threads:%d", len(progs)), fmt.Sprintf("body-runs:%d", runs))
		_ = types.List{}
	}
}

// futures and contexts that are not the canceller's business: a cancel that returns false changes NOTHING (futures started
// by the completed body keep running); a future whose creator's context ended was not cancelled by anybody
func c10ContextScenarios(rep *Report, tier string) {
	n := 3
	if tier == "thorough" {
		n = 40
	}
	for i := 0; i < n; i++ {
		{
			w, _ := NewWorld()
			src := "(do (def outer (future (future (do (sleep 40) 7)))) (def inner @outer) (list (future-cancel outer) @inner (future-cancelled? inner) (future-cancelled? outer)))"
			o, _ := w.EvalTextWithin(src, 10*time.Second)
			idx := rep.Add("F 0", "ok", src, true, "scenario:cancel-of-a-completed-future-changes-nothing")
			if o.Err != nil || o.Panic != nil || Show(o.Val) != "(false 7 false false)" {
				rep.Violate(idx, fmt.Sprintf("future-cancel on a completed, never cancelled future must return false and change nothing (its body's context included: futures the body started go on): got %s, expected (false 7 false false)", d2o(o)), src)
			}
		}
		{
			w, _ := NewWorld()
			ctx, cancel := context.WithTimeout(context.Background(), 30*time.Millisecond)
			w.EvalText(ctx, "(def f (future (do (sleep 100000) :never)))")
			time.Sleep(60 * time.Millisecond) // the creator's deadline passes while the body sleeps
			cancel()
			src := "(list (try @f (catch e :body-timed-out)) (future-cancelled? f) (future-cancel f) (future-cancelled? f) (future-done? f))"
			o, _ := w.EvalTextWithin(src, 10*time.Second)
			idx := rep.Add("F 0", "ok", "(def f (future (do (sleep 100000) :never))) under a 30ms deadline; later: "+src, true, "scenario:creator-deadline-is-not-a-cancel")
			if o.Err != nil || o.Panic != nil || Show(o.Val) != "(:body-timed-out false false false true)" {
				rep.Violate(idx, fmt.Sprintf("a future whose creator's deadline passed was never cancelled by future-cancel: future-cancelled? must stay false and future-cancel on it (completed) must return false: got %s, expected (:body-timed-out false false false true)", d2o(o)), src)
			}
		}
	}
}

func d2(c TimedCall) string {
	if c.Err != nil {
		return "error " + c.Err.Error()
	}
	return Show(c.Val)
}
