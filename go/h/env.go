package h

import (
	"context"
	"fmt"
	"runtime"
	"strings"
	"sync"
	"time"

	lisp "github.com/jig/lisp"
	"github.com/jig/lisp/env"
	"github.com/jig/lisp/lib/concurrent/nsconcurrent"
	"github.com/jig/lisp/lib/core/nscore"
	"github.com/jig/lisp/lib/coreextented/nscoreextended"
	"github.com/jig/lisp/types"
)

// World is one fresh interpreter environment plus the harness instrumentation.
type World struct {
	Env   types.EnvType
	mu    sync.Mutex
	met   int
	Trace []types.MalType
	// Cancel, when set, is what the harness builtin (cancel!) calls: the cancel function of the
	// context the current evaluation was given
	Cancel func()
	// TraceLimit > 0: (trace! x) fails once the trace is that long (stops runaway evaluations)
	TraceLimit int
}

// NewWorld builds an environment with core, load-file, concurrent and coreextended
// libraries, and registers the harness builtins (public API only):
//   (trace! x)  appends x to the world's trace, returns x
//   (depth!)    number of lisp.EVAL frames on the Go stack
//   (boom! x)   panics with x
//   (fail!)     returns a Go error (ErrSentinel)
func NewWorld() (*World, error) {
	w := &World{Env: env.NewEnv()}
	for _, load := range []func(types.EnvType) error{nscore.Load, nscore.LoadInput, nsconcurrent.Load, nscoreextended.Load} {
		if err := load(w.Env); err != nil {
			return nil, err
		}
	}
	w.Env.Set(types.Symbol{Val: "trace!"}, types.Func{Fn: func(ctx context.Context, a []types.MalType) (types.MalType, error) {
		if len(a) != 1 {
			return nil, fmt.Errorf("trace! wants 1 argument")
		}
		// an evaluation started with WithLocalTrace keeps its own trace (concurrent evaluations on one world)
		if ctx != nil {
			if lt, ok := ctx.Value(traceKey{}).(*LocalTrace); ok {
				lt.mu.Lock()
				lt.Items = append(lt.Items, a[0])
				lt.mu.Unlock()
				return a[0], nil
			}
		}
		w.mu.Lock()
		if w.TraceLimit > 0 && len(w.Trace) >= w.TraceLimit {
			w.mu.Unlock()
			return nil, fmt.Errorf("harness: trace limit reached (runaway evaluation)")
		}
		w.Trace = append(w.Trace, a[0])
		w.mu.Unlock()
		return a[0], nil
	}})
	w.Env.Set(types.Symbol{Val: "cancel!"}, types.Func{Fn: func(_ context.Context, a []types.MalType) (types.MalType, error) {
		if w.Cancel != nil {
			w.Cancel()
		}
		return nil, nil
	}})
	// (hard-sleep! ms) sleeps without looking at its context: a builtin that ignores cancellation
	w.Env.Set(types.Symbol{Val: "hard-sleep!"}, types.Func{Fn: func(_ context.Context, a []types.MalType) (types.MalType, error) {
		n, _ := a[0].(int)
		time.Sleep(time.Duration(n) * time.Millisecond)
		return nil, nil
	}})
	// (yield!) gives the processor away: widens the windows between the steps of an operation
	w.Env.Set(types.Symbol{Val: "yield!"}, types.Func{Fn: func(_ context.Context, a []types.MalType) (types.MalType, error) {
		runtime.Gosched()
		return nil, nil
	}})
	// (meet! n) blocks until n callers have arrived (or 300 ms have passed): a rendezvous
	w.Env.Set(types.Symbol{Val: "meet!"}, types.Func{Fn: func(_ context.Context, a []types.MalType) (types.MalType, error) {
		n, _ := a[0].(int)
		w.mu.Lock()
		w.met++
		w.mu.Unlock()
		deadline := time.Now().Add(300 * time.Millisecond)
		for time.Now().Before(deadline) {
			w.mu.Lock()
			ok := w.met >= n
			w.mu.Unlock()
			if ok {
				break
			}
			runtime.Gosched()
		}
		return nil, nil
	}})
	w.Env.Set(types.Symbol{Val: "depth!"}, types.Func{Fn: func(_ context.Context, a []types.MalType) (types.MalType, error) {
		return EvalDepth(), nil
	}})
	return w, nil
}

// EvalDepth counts github.com/jig/lisp.EVAL frames on the current goroutine's stack.
func EvalDepth() int {
	pcs := make([]uintptr, 1<<16)
	n := runtime.Callers(0, pcs)
	frames := runtime.CallersFrames(pcs[:n])
	d := 0
	for {
		f, more := frames.Next()
		if f.Function == "github.com/jig/lisp.EVAL" {
			d++
		}
		if !more {
			break
		}
	}
	return d
}

// Outcome of running something against the implementation.
type Outcome struct {
	Val   types.MalType
	Err   error
	Panic interface{} // non-nil when a Go panic escaped
	Stack string
}

// Guard runs f and converts an escaping panic into Outcome.Panic.
func Guard(f func() (types.MalType, error)) (o Outcome) {
	defer func() {
		if r := recover(); r != nil {
			buf := make([]byte, 4096)
			buf = buf[:runtime.Stack(buf, false)]
			o = Outcome{Panic: r, Stack: string(buf)}
		}
	}()
	v, e := f()
	return Outcome{Val: v, Err: e}
}

// Class is the canonical outcome line: "V <wire>" | "E <wire of error>" | "P".
func (o Outcome) Class() string {
	switch {
	case o.Panic != nil:
		return "P"
	case o.Err != nil:
		return "E " + strings.TrimSpace(EncS(o.Err))
	default:
		return "V " + strings.TrimSpace(EncS(o.Val))
	}
}

func (w *World) EvalText(ctx context.Context, src string) Outcome {
	return Guard(func() (types.MalType, error) {
		ast, err := lisp.READ(src, nil, w.Env)
		if err != nil {
			return nil, err
		}
		return lisp.EVAL(ctx, ast, w.Env)
	})
}

func (w *World) Eval(ctx context.Context, ast types.MalType) Outcome {
	return Guard(func() (types.MalType, error) { return lisp.EVAL(ctx, ast, w.Env) })
}

// CallBuiltin invokes a registered builtin directly through its types.Func.
func (w *World) CallBuiltin(name string, args ...types.MalType) Outcome {
	return Guard(func() (types.MalType, error) {
		f, err := w.Env.Get(types.Symbol{Val: name})
		if err != nil {
			return nil, err
		}
		return f.(types.Func).Fn(context.Background(), args)
	})
}

// TraceSnapshot returns a copy of the trace taken under the world's lock.
func (w *World) TraceSnapshot() []types.MalType {
	w.mu.Lock()
	defer w.mu.Unlock()
	return append([]types.MalType(nil), w.Trace...)
}

// LocalTrace is the trace of one evaluation among several running on the same world.
type LocalTrace struct {
	mu    sync.Mutex
	Items []types.MalType
}
type traceKey struct{}

func WithLocalTrace(ctx context.Context) (context.Context, *LocalTrace) {
	lt := &LocalTrace{}
	return context.WithValue(ctx, traceKey{}, lt), lt
}
func (lt *LocalTrace) Snapshot() []types.MalType {
	lt.mu.Lock()
	defer lt.mu.Unlock()
	return append([]types.MalType(nil), lt.Items...)
}

// EvalTextWithin evaluates src under context.Background() and gives up waiting after d (the evaluation itself cannot
// be stopped: the goroutine is left behind). ok is false when it did not return in time.
func (w *World) EvalTextWithin(src string, d time.Duration) (o Outcome, ok bool) {
	ch := make(chan Outcome, 1)
	go func() { ch <- w.EvalText(context.Background(), src) }()
	select {
	case o = <-ch:
		return o, true
	case <-time.After(d):
		return Outcome{Err: fmt.Errorf("harness: no answer within %v", d)}, false
	}
}
