package h

import (
	"context"
	"sync"
	"sync/atomic"
	"time"

	lisp "github.com/jig/lisp"
	"github.com/jig/lisp/types"
)

// TimedCall is one operation issued by a harness thread through lisp.EVAL, with the instants of
// its invocation and of its response on a global logical clock.
type TimedCall struct {
	Tid       int
	Src       string
	Val       types.MalType
	Err       error
	Panic     interface{}
	Inv, Resp int64
	Took      time.Duration // wall-clock duration of the call
}

// ThreadOp is one operation of a thread: source text, and an optional context constructor
type ThreadOp struct {
	Src string
	Ctx func() (context.Context, context.CancelFunc) // nil: context.Background()
}

// RunThreads evaluates, on one shared world, the operation lists of several threads at the same
// time (all threads are released together). It returns the completed calls per thread and whether
// some thread failed to finish within the timeout (its remaining calls are then missing).
func RunThreads(w *World, clock *atomic.Int64, progs [][]ThreadOp, timeout time.Duration) ([][]TimedCall, bool) {
	asts := make([][]types.MalType, len(progs))
	for t, p := range progs {
		for _, op := range p {
			ast, err := lisp.READ(op.Src, nil, w.Env)
			if err != nil {
				panic("harness: cannot read " + op.Src + ": " + err.Error())
			}
			asts[t] = append(asts[t], ast)
		}
	}
	out := make([][]TimedCall, len(progs))
	var mu sync.Mutex
	var wg sync.WaitGroup
	start := make(chan struct{})
	for t := range progs {
		wg.Add(1)
		go func(t int) {
			defer wg.Done()
			<-start
			for i, ast := range asts[t] {
				ctx, cancel := context.Background(), context.CancelFunc(func() {})
				if progs[t][i].Ctx != nil {
					ctx, cancel = progs[t][i].Ctx()
				}
				c := TimedCall{Tid: t, Src: progs[t][i].Src}
				c.Inv = clock.Add(1)
				t0 := time.Now()
				o := Guard(func() (types.MalType, error) { return lisp.EVAL(ctx, ast, w.Env) })
				c.Took = time.Since(t0)
				c.Resp = clock.Add(1)
				cancel()
				c.Val, c.Err, c.Panic = o.Val, o.Err, o.Panic
				mu.Lock()
				out[t] = append(out[t], c)
				mu.Unlock()
			}
		}(t)
	}
	done := make(chan struct{})
	go func() { wg.Wait(); close(done) }()
	close(start)
	select {
	case <-done:
		return out, false
	case <-time.After(timeout):
		mu.Lock()
		snap := make([][]TimedCall, len(out))
		for i := range out {
			snap[i] = append([]TimedCall(nil), out[i]...)
		}
		mu.Unlock()
		return snap, true
	}
}

// READ reads one form with the world's environment (no module name).
func READ(w *World, src string) (types.MalType, error) { return lisp.READ(src, nil, w.Env) }

// StripPos returns the form without source positions (as Go code would build it).
func StripPos(v types.MalType) types.MalType {
	switch x := v.(type) {
	case types.Symbol:
		return types.Symbol{Val: x.Val}
	case types.List:
		l := make([]types.MalType, len(x.Val))
		for i := range l {
			l[i] = StripPos(x.Val[i])
		}
		return types.List{Val: l}
	case types.Vector:
		l := make([]types.MalType, len(x.Val))
		for i := range l {
			l[i] = StripPos(x.Val[i])
		}
		return types.Vector{Val: l}
	case types.HashMap:
		m := map[string]types.MalType{}
		for k, e := range x.Val {
			m[k] = StripPos(e)
		}
		return types.HashMap{Val: m}
	default:
		return v
	}
}
