(** The builtin table (core.Load / concurrent.Load as far as modelled), the higher-order
    builtins, and the closed evaluator [eval].  Definitions only. *)
From Lisp Require Export Eval.

Inductive bkind :=
| BPure (f : list val -> outcome val)
| BApply | BMap | BUpdate | BUpdateIn | BSwap | BReset | BDeref | BAtom.

Record bentry := mkB { b_sig : bsig; b_decl : list Z; b_kind : bkind }.

Definition sig_fixed (ts : list ty) : bsig := mkSig false ts None 2.
Definition sig_var : bsig := mkSig false [] (Some TAny) 2.
Definition sig_ctx_fixed (ts : list ty) : bsig := mkSig true ts None 2.
Definition sig_ctx_var : bsig := mkSig true [] (Some TAny) 2.

Definition pure1 (f : list val -> outcome val) := mkB (sig_fixed [TAny]) [] (BPure f).
Definition pure2 (f : list val -> outcome val) := mkB (sig_fixed [TAny; TAny]) [] (BPure f).
Definition purev (f : list val -> outcome val) := mkB sig_var [] (BPure f).
Definition int2 (f : list val -> outcome val) := mkB (sig_fixed [TInt; TInt]) [] (BPure f).
Definition pred (f : val -> bool) := pure1 (pred1 f).

Definition is_fn (v : val) : bool := match v with VFn _ _ _ m => negb m | VBuiltin _ => true | _ => false end.
Definition is_macro (v : val) : bool := match v with VFn _ _ _ m => m | _ => false end.

Definition builtin_table : list (str * bentry) :=
  [ (s_ "assoc-in", mkB (sig_fixed [TAny; TVector; TAny]) [] (BPure b_assoc_in));
    (s_ "update", mkB (sig_ctx_fixed [TAny; TAny; TAny]) [] BUpdate);
    (s_ "update-in", mkB (sig_ctx_fixed [TAny; TVector; TAny]) [] BUpdateIn);
    (s_ "<", int2 (cmp Z.ltb)); (s_ "<=", int2 (cmp Z.leb));
    (s_ ">", int2 (cmp Z.gtb)); (s_ ">=", int2 (cmp Z.geb));
    (s_ "+", int2 (arith Z.add)); (s_ "-", int2 (arith Z.sub)); (s_ "*", int2 (arith Z.mul));
    (s_ "/", int2 b_div);
    (s_ "get", pure2 b_get); (s_ "get-in", pure2 b_get_in);
    (s_ "contains?", mkB (sig_fixed [TAny; TString]) [] (BPure b_contains_Q));
    (s_ "cons", pure2 b_cons);
    (s_ "nth", mkB (sig_fixed [TAny; TInt]) [] (BPure b_nth));
    (s_ "with-meta", pure2 b_with_meta);
    (s_ "range", int2 b_range);
    (s_ "merge", pure2 b_merge);
    (s_ "rename-keys", mkB (sig_fixed [THashMap; THashMap]) [] (BPure b_rename_keys));
    (s_ "map", mkB (sig_ctx_fixed [TAny; TAny]) [] BMap);
    (s_ "throw", pure1 b_throw);
    (s_ "symbol", mkB (sig_fixed [TString]) [] (BPure b_symbol));
    (s_ "keyword", mkB (sig_fixed [TString]) [] (BPure b_keyword));
    (s_ "set", pure1 b_set);
    (s_ "keys", pure1 b_keys); (s_ "vals", pure1 b_vals); (s_ "vec", pure1 b_vec);
    (s_ "first", pure1 b_first); (s_ "rest", pure1 b_rest); (s_ "count", pure1 b_count);
    (s_ "seq", pure1 b_seq);
    (s_ "deref", mkB (sig_ctx_fixed [TDeref]) [] BDeref);
    (s_ "pr-str", purev b_pr_str); (s_ "str", purev b_str);
    (s_ "list", purev b_list); (s_ "vector", purev b_vector);
    (s_ "hash-map", purev b_hash_map); (s_ "hash-set", purev b_hash_set);
    (s_ "assoc", purev b_assoc); (s_ "dissoc", purev b_dissoc); (s_ "concat", purev b_concat);
    (s_ "=", pure2 b_equal);
    (s_ "nil?", pred (fun v => match v with VNil => true | _ => false end));
    (s_ "true?", pred (fun v => match v with VBool true => true | _ => false end));
    (s_ "false?", pred (fun v => match v with VBool false => true | _ => false end));
    (s_ "empty?", pure1 b_empty_Q);
    (s_ "symbol?", pred (fun v => match v with VSym _ _ => true | _ => false end));
    (s_ "keyword?", pred is_keyword); (s_ "string?", pred is_string);
    (s_ "number?", pred (fun v => match v with VInt _ => true | _ => false end));
    (s_ "fn?", pred is_fn); (s_ "macro?", pred is_macro);
    (s_ "list?", pred (fun v => match v with VList _ _ => true | _ => false end));
    (s_ "vector?", pred (fun v => match v with VVec _ _ => true | _ => false end));
    (s_ "map?", pred (fun v => match v with VMap _ => true | _ => false end));
    (s_ "set?", pred (fun v => match v with VSet _ => true | _ => false end));
    (s_ "sequential?", pred sequential);
    (s_ "apply", mkB sig_ctx_var [2] BApply);
    (s_ "conj", mkB sig_var [2] (BPure b_conj));
    (s_ "assert", mkB sig_var [1; 2] (BPure b_assert));
    (s_ "take", mkB (sig_fixed [TInt; TAny]) [] (BPure b_take));
    (s_ "take-last", mkB (sig_fixed [TInt; TAny]) [] (BPure b_take_last));
    (s_ "drop", mkB (sig_fixed [TInt; TAny]) [] (BPure b_drop));
    (s_ "drop-last", mkB (sig_fixed [TInt; TAny]) [] (BPure b_drop_last));
    (s_ "subvec", mkB sig_var [2; 3] (BPure b_subvec));
    (* lib/concurrent *)
    (s_ "atom", mkB (sig_fixed [TAny]) [] BAtom);
    (s_ "atom?", pred (fun v => match v with VAtom _ => true | _ => false end));
    (s_ "swap!", mkB sig_ctx_var [] BSwap);
    (s_ "reset!", mkB (sig_fixed [TAny; TAny]) [] BReset)
  ].

Definition finishM {A} (m : M A) : M A :=
  fun st => match m st with
            | (Panic site, st') => (Err (recover_panic site), st')
            | x => x
            end.

Section Builtins.
  Variable ev : nat -> val -> positive -> M val.
  (** Apply as seen from inside a builtin running below an EVAL frame at depth d *)
  Variable app : val -> list val -> M val.

  Definition run_update (hm idx f : val) : M val :=
    match hm with
    | VMap m =>
        let+ k := lift (as_str idx) in
        let+ res := app f [lookup_or_nil k m] in
        lift (b_assoc [hm; idx; res])
    | VVec l _ =>
        let+ i := lift (as_int idx) in
        let+ old := lift (index l i) in
        let+ res := app f [old] in
        lift (b_assoc [hm; idx; res])
    | _ => fail (VGoErr (s_ "expected vector or hash-map"))
    end.

  Fixpoint run_update_in (sq : val) (path : list val) (f : val) : M val :=
    match path with
    | [] => ret sq
    | [idx] => run_update sq idx f
    | idx :: rest =>
        match sq with
        | VMap m =>
            let+ k := lift (as_str idx) in
            let branch := match lookup_or_nil k m with VNil => VMap [] | b => b end in
            match branch with
            | VMap _ => let+ inner := run_update_in branch rest f in lift (b_assoc [sq; idx; inner])
            | _ => lift (Panic (s_ "interface conversion: not HashMap"))
            end
        | VVec l _ =>
            let+ i := lift (as_int idx) in
            let+ b := lift (index l i) in
            let branch := match b with VNil => vvec [] | b => b end in
            match branch with
            | VVec _ _ => let+ inner := run_update_in branch rest f in lift (b_assoc [sq; idx; inner])
            | _ => lift (Panic (s_ "interface conversion: not Vector"))
            end
        | _ => fail (VGoErr (s_ "type not supported of index"))
        end
    end.

  Definition run_kind (k : bkind) (args : list val) : M val :=
    match k with
    | BPure f => lift (f args)
    | BApply =>
        match args with
        | f :: r =>
            match rev r with
            | last :: mid_rev => let+ l := lift (get_slice last) in app f (rev mid_rev ++ l)
            | [] => fail (VGoErr (s_ "apply requires at least 2 args"))
            end
        | [] => fail (VGoErr (s_ "apply requires at least 2 args"))
        end
    | BMap =>
        match args with
        | [f; sq] =>
            let+ l := lift (get_slice sq) in
            let+ rs := (fix go (l : list val) : M (list val) :=
                          match l with
                          | [] => ret []
                          | x :: r => let+ y := app f [x] in let+ ys := go r in ret (y :: ys)
                          end) l in
            ret (vlist rs)
        | _ => lift (Panic (s_ "arity"))
        end
    | BUpdate =>
        match args with
        | [VNil; _; _] => ret VNil
        | [hm; idx; f] => run_update hm idx f
        | _ => lift (Panic (s_ "arity"))
        end
    | BUpdateIn =>
        match args with
        | [VNil; _; _] => ret VNil
        | [sq; VVec path _; f] => run_update_in sq path f
        | _ => lift (Panic (s_ "arity"))
        end
    | BSwap =>
        match args with
        | [] => lift (Panic (s_ "index out of range"))
        | VAtom id :: r =>
            match r with
            | [] => lift (Panic (s_ "index out of range"))
            | f :: extra =>
                let+ cur := atom_get id in
                let+ res := app f (cur :: extra) in
                let+ _ := atom_set id res in
                ret res
            end
        | _ :: _ => fail (VGoErr (s_ "swap! called with non-atom"))
        end
    | BReset =>
        match args with
        | [VAtom id; v] => let+ _ := atom_set id v in ret v
        | [_; _] => fail (VGoErr (s_ "reset! called with non-atom"))
        | _ => lift (Panic (s_ "arity"))
        end
    | BDeref =>
        match args with
        | [VAtom id] => atom_get id
        | _ => lift (Panic (s_ "arity"))
        end
    | BAtom =>
        match args with
        | [v] => new_atom v
        | _ => lift (Panic (s_ "arity"))
        end
    end.
End Builtins.

Definition ROOT : positive := 1%positive.

(** call of a registered Go function from (below) an EVAL frame at depth d.
    [k] bounds the nesting of builtins applying builtins (apply apply ...). *)
Fixpoint call_builtin (k : nat) (ev : nat -> val -> positive -> M val) (d : nat) (name : str) (args : list val) : M val :=
  match k with
  | O => fun st => (OutOfFuel, st)
  | S k' =>
      if str_eqb name (s_ "eval") then          (* raw types.Func, no binder, no recover *)
        match args with
        | [a] => ev (S d) a ROOT
        | _ => fail (VGoErr (s_ "wrong number of arguments"))
        end
      else if str_eqb name (s_ "trace!") then   (* harness builtin, raw *)
        match args with
        | [a] => let+ _ := trace_push a in ret a
        | _ => fail (VGoErr (s_ "trace! wants 1 argument"))
        end
      else if str_eqb name (s_ "depth!") then   (* harness builtin, raw *)
        ret (VInt (Z.of_nat d))
      else if str_eqb name (s_ "cancel!") then  (* harness builtin, raw: cancels the context of this evaluation *)
        fun st => (Ok VNil, set_cancelled st)
      else
        match alookup name builtin_table with
        | None => lift (Panic (s_ "unregistered builtin"))
        | Some b =>
            match bind (b_sig b) (b_decl b) with
            | RegPanic why => lift (Panic why)
            | Bound mn mx =>
                match gate (b_sig b) mn mx args with
                | Ok _ => finishM (run_kind (apply_fn ev (call_builtin k' ev) d) (b_kind b) args)
                | Err e => fail e
                | Panic x => lift (Panic x)
                | OutOfFuel => fun st => (OutOfFuel, st)
                end
            end
        end
  end.

Fixpoint eval (n : nat) (d : nat) (ast : val) (env : positive) {struct n} : M val :=
  match n with
  | O => fun st => (OutOfFuel, st)
  | S n' => eval_step (eval n') (eval n') (call_builtin n' (eval n')) n' d ast env
  end.

(** EVAL given a context: the poll at the top of every iteration of the evaluation loop
    (mal.go: select { case <-ctx.Done(): return timeout error; default: }).  [eval] above is EVAL
    with a context that is never cancelled; both share every other line (eval_step). *)
Definition timeout_error (ast : val) : val :=
  new_lisp_error (VGoErr (s_ "timeout while evaluating expression")) (get_position ast).

Fixpoint eval_c (n : nat) (d : nat) (ast : val) (env : positive) {struct n} : M val :=
  match n with
  | O => fun st => (OutOfFuel, st)
  | S n' => fun st =>
      if cancelled st then (Err (timeout_error ast), st)
      else eval_step (eval_c n') (eval_c n') (call_builtin n' (eval_c n')) n' d ast env st
  end.

(** EVAL with a Stepper installed: the debugger section runs at every entry of EVAL, and the
    loop `continue`s become fresh EVAL calls (`if Stepper != nil { return EVAL(ctx, ast, env) }`),
    which therefore run the debugger section again.  The depth parameter is not maintained
    faithfully here (with a stepper every iteration is a new Go frame). *)
Definition evalfn := nat -> val -> positive -> M val.
Definition oof : evalfn := fun _ _ _ st => (OutOfFuel, st).

(** (EVAL with its debugger section, the bare loop body used by `continue`) *)
Fixpoint dbg_pair (n : nat) : evalfn * evalfn :=
  match n with
  | O => (oof, oof)
  | S n' =>
      let '(e, l) := dbg_pair n' in
      let body : evalfn := eval_step e l (call_builtin n' e) n' in
      ((fun d ast env => dbg_entry ast env (body d ast env)), body)
  end.
Definition eval_dbg (n : nat) : evalfn := fst (dbg_pair n).

(** the root scope: every builtin bound to itself *)
Definition raw_builtins : list str := [s_ "eval"; s_ "trace!"; s_ "depth!"; s_ "cancel!"].
Definition root_frame : frame :=
  mkFrame (map (fun n => (n, VBuiltin n)) (raw_builtins ++ map fst builtin_table)) None.
Definition state0 : state := mkState (PositiveMap.add ROOT root_frame (PositiveMap.empty frame)) 2%positive 1 [] [] None false.
