(** C07 — cancelling the context stops evaluation promptly (the part that is logic: where the
    poll sits, and that nothing pending can start new work; the wall-clock bound itself is measured
    on the implementation by the harness). *)
From Lisp Require Import Base Value Core Binder Env Eval Interp EvalProofs CancelProofs Run.

(** once the context is cancelled EVERY evaluation that is started — of any form: a loop iteration,
    a recursive call, a macro body, a handler — returns the timeout error at once and leaves the
    state untouched; one unit of fuel is enough, i.e. the answer does not depend on how long the
    form would otherwise run *)
Theorem C07_poll_on_every_iteration : forall n d ast env st,
  cancelled st = true -> eval_c (S n) d ast env st = (Err (timeout_error ast), st).
Proof. exact eval_c_cancelled. Qed.

Theorem C07_fuel_irrelevant_after_cancel : forall n m d ast env st,
  cancelled st = true -> eval_c (S n) d ast env st = eval_c (S m) d ast env st.
Proof. exact eval_c_cancelled_any_fuel. Qed.

(** the context changes nothing else: while it is live, an iteration is the ordinary iteration *)
Theorem C07_live_context_is_transparent : forall n d ast env st,
  cancelled st = false ->
  eval_c (S n) d ast env st = eval_step (eval_c n) (eval_c n) (call_builtin n (eval_c n)) n d ast env st.
Proof. exact eval_c_live. Qed.

(** pending work cannot start anything: bodies stop at their first form, *)
Theorem C07_bodies_stop : forall ev, (forall d a e st, cancelled st = true -> ev d a e st = (Err (timeout_error a), st)) ->
  forall d x xs env st, cancelled st = true -> dbg st = None ->
  do_forms ev d (x :: xs) 0 false env st = (Err (timeout_error x), st).
Proof. exact do_all_dead. Qed.

(** a catch handler is entered but cannot keep the evaluation alive, *)
Theorem C07_handler_cannot_continue : forall ev ev_cont,
  (forall d a e st, cancelled st = true -> ev d a e st = (Err (timeout_error a), st)) ->
  (forall d a e st, cancelled st = true -> ev_cont d a e st = (Err (timeout_error a), st)) ->
  forall d (body : M val) e st st1 cbind h hs env,
  body st = (Err e, st1) -> cancelled st1 = true -> dbg st1 = None ->
  exists o st', catch_errors body
           (fun e => let+ new_env := new_env_binds env (VList [cbind] None) (VList [caught_value e] None) in
                     let+ ast' := do_forms ev d (h :: hs) 0 true new_env in ev_cont d ast' new_env) st = (o, st') /\
         (forall v, o <> Ok v) /\ trace st' = trace st1 /\ cancelled st' = true /\ dbg st' = None.
Proof. exact handler_dead. Qed.

(** nor can a finally body *)
Theorem C07_finally_cannot_continue : forall ev,
  (forall d a e st, cancelled st = true -> ev d a e st = (Err (timeout_error a), st)) ->
  forall d f fs env (rest : M val) st r st1,
  rest st = (r, st1) -> r <> OutOfFuel -> cancelled st1 = true -> dbg st1 = None ->
  with_finally ev d (Some (f :: fs)) env rest st = (r, st1).
Proof. exact finally_dead. Qed.

(** whole evaluations, for ARBITRARY remaining forms (loops that never end included) *)
Theorem C07_rest_never_started : forall rest,
  let '(o, st) := eval_c 8 1 (VList [sy "do"; call0 "cancel!"; rest] None) ROOT state0 in
  o = Err (timeout_error rest) /\ trace st = [] /\ cancelled st = true.
Proof. exact cancel_then_anything. Qed.

Theorem C07_try_handler_finally_never_started : forall body h more f,
  let prog := VList [sy "try"; VList [sy "do"; call0 "cancel!"; body] None;
                     VList [sy "catch"; sy "e"; h; more] None;
                     VList [sy "finally"; f] None] None in
  let '(o, st) := eval_c 10 1 prog ROOT state0 in
  o = Err (timeout_error h) /\ trace st = [] /\ cancelled st = true.
Proof. exact cancel_in_try_handler_and_finally_are_dead. Qed.

Theorem C07_leftover_is_bounded : forall rest,
  let prog := VList [sy "do"; VList [sy "trace!"; call0 "cancel!"] None; VList [sy "trace!"; VInt 2] None; rest] None in
  let '(o, st) := eval_c 10 1 prog ROOT state0 in
  o = Err (timeout_error (VList [sy "trace!"; VInt 2] None)) /\ trace st = [VNil] /\ cancelled st = true.
Proof. exact cancel_bounded_leftover. Qed.

Print Assumptions C07_poll_on_every_iteration.
Print Assumptions C07_fuel_irrelevant_after_cancel.
Print Assumptions C07_live_context_is_transparent.
Print Assumptions C07_bodies_stop.
Print Assumptions C07_handler_cannot_continue.
Print Assumptions C07_finally_cannot_continue.
Print Assumptions C07_rest_never_started.
Print Assumptions C07_try_handler_finally_never_started.
Print Assumptions C07_leftover_is_bounded.
