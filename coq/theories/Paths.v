(** Normal form of a function's synchronisation behaviour: the SET of its paths, each path the
    sequence of lock / shared-access / channel / call events it performs, with deferred unlocks
    expanded where the function returns.  Two source texts with the same path set perform the same
    synchronisation-relevant steps in the same order on every execution (a `defer mu.Unlock()`
    and an explicit unlock before every return, a merged or a split conditional, renamed locals,
    reordered local computations are all invisible here), so the models are pinned to path sets
    rather than to the token text. *)
From Lisp Require Export Base Lockset.
Local Open Scope nat_scope.

Inductive pev :=
| PLock | PUnlock | PRLock | PRUnlock
| PRead (f : str) | PWrite (f : str)
| PCallOwn (n : str) | PCallOther (n : str)
| PTok (t : str).                          (* Apply, Send:<chan>, Recv:<chan>, Go, CallCancel *)

Definition pev_eqb (a b : pev) : bool :=
  match a, b with
  | PLock, PLock | PUnlock, PUnlock | PRLock, PRLock | PRUnlock, PRUnlock => true
  | PRead x, PRead y | PWrite x, PWrite y | PCallOwn x, PCallOwn y | PCallOther x, PCallOther y | PTok x, PTok y => str_eqb x y
  | _, _ => false
  end.

Fixpoint path_eqb (a b : list pev) : bool :=
  match a, b with
  | [], [] => true
  | x :: a', y :: b' => pev_eqb x y && path_eqb a' b'
  | _, _ => false
  end.

(** paths of structured code: (events so far are appended by the caller) each result is
    (events, returned?); [dfr] are the unlocks registered by defer, most recent first *)
Fixpoint paths (fuel : nat) (code : list instr) (dfr : list pev) : list (list pev * bool) :=
  match fuel with
  | O => []
  | S f =>
      match code with
      | [] => [([], false)]
      | i :: rest =>
          let after := fun (dfr' : list pev) (pre : list (list pev * bool)) =>
            flat_map (fun p : list pev * bool => if snd p then [p]
                               else map (fun q : list pev * bool => (fst p ++ fst q, snd q)) (paths f rest dfr')) pre in
          let one (e : pev) := after dfr [([e], false)] in
          match i with
          | ILock => one PLock | IUnlock => one PUnlock | IRLock => one PRLock | IRUnlock => one PRUnlock
          | IDeferUnlock => after (PUnlock :: dfr) [([], false)]
          | IDeferRUnlock => after (PRUnlock :: dfr) [([], false)]
          | IRead x => one (PRead x) | IWrite x => one (PWrite x)
          | ICallOwn n => one (PCallOwn n) | ICallOther n => one (PCallOther n)
          | INeutral t => one (PTok t)
          | IReturn => [(dfr, true)]
          | IIf thn els => after dfr (paths f thn dfr ++ paths f els dfr)
          | ISelect cases => after dfr (flat_map (fun c => paths f c dfr) cases)
          | ILoop body => after dfr (([], false) :: paths f body dfr)      (* zero or one iteration *)
          | IDeferFn body => after dfr [([], false)]
          | IBad t => [([PTok (s_ "BAD")], true)]
          end
      end
  end.

(** falling off the end of the function runs the deferred unlocks too *)
Definition fn_paths (toks : list str) : list (list pev) :=
  let code := parse toks in
  map (fun p : list pev * bool => fst p) (paths (4 * csize code + 4) code []).

Fixpoint mem_path (p : list pev) (l : list (list pev)) : bool :=
  match l with [] => false | q :: r => path_eqb p q || mem_path p r end.

Definition same_paths (a b : list (list pev)) : bool :=
  forallb (fun p => mem_path p b) a && forallb (fun p => mem_path p a) b.

(** helpers to write expected paths *)
Definition rd (s : String.string) := PRead (s_ s).
Definition wr (s : String.string) := PWrite (s_ s).
Definition tk (s : String.string) := PTok (s_ s).
Definition own (s : String.string) := PCallOwn (s_ s).
