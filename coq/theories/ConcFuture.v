(** lib/concurrent/concurrent.go, futures: the body goroutine, Deref, Cancel and the status
    predicates as interleaved small steps over the shared Future record.  The action sequences
    are those the translator extracts from the Go source (Gen/ConcActions.v: conc_NewFuture_go,
    conc_Future_Deref, conc_Future_Cancel, conc_Future_IsDone, conc_Future_IsCancelled);
    Props/C10.v pins them.  A schedule is a list of (thread, choice): thread 0 is the body
    goroutine, thread S t is caller t; the choice resolves Go's select when two cases are ready. *)
From Lisp Require Export Base.
Local Open Scope nat_scope.

Section Future.
  Variable Res : Type.                      (* outcomes: a value or an error *)
  Variable body : bool -> Res.              (* what the body evaluates to, given whether its context
                                               had been cancelled by the time it finished *)

  Inductive fop :=
  | FDeref (expired : bool)                 (* expired: the caller's own context has ended *)
  | FStat (done : bool)                     (* future-done? / future-cancelled? *)
  | FCancel.

  Inductive fret := FOut (o : Res) | FTimeout | FBool (b : bool).

  Inductive bpc :=                          (* the body goroutine *)
  | BRun                                    (* Apply(ctx, fn) still running *)
  | BLock (o : Res) | BSetDone (o : Res) | BUnlock (o : Res)
  | BSend (o : Res)                         (* f.ValChan <- res  /  f.ErrChan <- err *)
  | BEnd.

  Inductive cpc :=                          (* a caller *)
  | CIdle
  | CHold (o : Res)                         (* took the outcome out of the slot, re-deposit pending *)
  | CStatLocked (done : bool)
  | CStatRead (done : bool) (b : bool)
  | CCanLocked
  | CCanSeen (d : bool)                     (* Read:Done *)
  | CCanW1                                  (* Write:Cancelled done *)
  | CCanW2                                  (* Write:Done done *)
  | CCanCalled                              (* CallCancel done (or skipped) *)
  | CCanRet (c : bool).                     (* Read:Cancelled, deferred Unlock pending *)

  Record fcall := mkFCall { fc_tid : nat; fc_op : fop; fc_ret : fret; fc_inv : nat; fc_resp : nat }.

  Record caller := mkCaller { cpc_of : cpc; ctodo : list fop; cinv : nat (* invocation instant of the call in flight *) }.

  Record fstate := mkF {
    f_done : bool;
    f_cancelled : bool;
    f_mu : option nat;                      (* holder of f.mu: 0 the body, S t caller t *)
    f_chan : option Res;                    (* the outcome slot (ValChan / ErrChan, capacity 1) *)
    f_ctx : bool;                           (* the body's context has been cancelled *)
    f_body : bpc;
    f_callers : list caller;
    (* ghost *)
    f_runs : nat;                           (* evaluations of the body *)
    f_outcome : option Res;
    f_time : nat;
    f_tdone : option nat;                   (* when Done first became true *)
    f_tcanc : option nat;                   (* when Cancelled first became true *)
    f_hist : list fcall;
  }.

  Fixpoint set_nth {A} (l : list A) (n : nat) (x : A) : list A :=
    match l, n with
    | [], _ => []
    | _ :: r, O => x :: r
    | y :: r, S n' => y :: set_nth r n' x
    end.

  Definition first_time (o : option nat) (t : nat) : option nat := match o with Some x => Some x | None => Some t end.

  Definition tick (s : fstate) : fstate :=
    mkF (f_done s) (f_cancelled s) (f_mu s) (f_chan s) (f_ctx s) (f_body s) (f_callers s)
        (f_runs s) (f_outcome s) (S (f_time s)) (f_tdone s) (f_tcanc s) (f_hist s).

  Definition body_step (s : fstate) : option fstate :=
    match f_body s with
    | BRun =>
        let o := body (f_ctx s) in
        Some (mkF (f_done s) (f_cancelled s) (f_mu s) (f_chan s) (f_ctx s) (BLock o) (f_callers s)
                  (S (f_runs s)) (Some o) (S (f_time s)) (f_tdone s) (f_tcanc s) (f_hist s))
    | BLock o =>
        match f_mu s with
        | None => Some (mkF (f_done s) (f_cancelled s) (Some 0) (f_chan s) (f_ctx s) (BSetDone o) (f_callers s)
                            (f_runs s) (f_outcome s) (S (f_time s)) (f_tdone s) (f_tcanc s) (f_hist s))
        | Some _ => None
        end
    | BSetDone o =>
        Some (mkF true (f_cancelled s) (f_mu s) (f_chan s) (f_ctx s) (BUnlock o) (f_callers s)
                  (f_runs s) (f_outcome s) (S (f_time s)) (first_time (f_tdone s) (f_time s)) (f_tcanc s) (f_hist s))
    | BUnlock o =>
        Some (mkF (f_done s) (f_cancelled s) None (f_chan s) (f_ctx s) (BSend o) (f_callers s)
                  (f_runs s) (f_outcome s) (S (f_time s)) (f_tdone s) (f_tcanc s) (f_hist s))
    | BSend o =>
        match f_chan s with
        | None => Some (mkF (f_done s) (f_cancelled s) (f_mu s) (Some o) (f_ctx s) BEnd (f_callers s)
                            (f_runs s) (f_outcome s) (S (f_time s)) (f_tdone s) (f_tcanc s) (f_hist s))
        | Some _ => None           (* a full slot would block the send *)
        end
    | BEnd => None
    end.

  (** caller t moves to pc p, with the rest of the state as given *)
  Definition with_caller (s : fstate) (t : nat) (c : caller) : list caller := set_nth (f_callers s) t c.

  Definition finish (s : fstate) (t : nat) (c : caller) (op : fop) (r : fret) : list fcall :=
    mkFCall t op r (cinv c) (f_time s) :: f_hist s.

  Definition caller_step (s : fstate) (t : nat) (choice : bool) : option fstate :=
    match nth_error (f_callers s) t with
    | None => None
    | Some c =>
        let me := S t in
        let now := f_time s in
        let keep p := mkCaller p (ctodo c) (cinv c) in
        match cpc_of c with
        | CIdle =>
            match ctodo c with
            | [] => None
            | FDeref expired :: r =>
                (* select { case <-ctx.Done(): ...  case o := <-slot: ... } *)
                match f_chan s with
                | Some o =>
                    if expired && choice
                    then Some (mkF (f_done s) (f_cancelled s) (f_mu s) (f_chan s) (f_ctx s) (f_body s)
                                   (with_caller s t (mkCaller CIdle r now))
                                   (f_runs s) (f_outcome s) (S now) (f_tdone s) (f_tcanc s)
                                   (mkFCall t (FDeref expired) FTimeout now now :: f_hist s))
                    else Some (mkF (f_done s) (f_cancelled s) (f_mu s) None (f_ctx s) (f_body s)
                                   (with_caller s t (mkCaller (CHold o) (FDeref expired :: r) now))
                                   (f_runs s) (f_outcome s) (S now) (f_tdone s) (f_tcanc s) (f_hist s))
                | None =>
                    if expired
                    then Some (mkF (f_done s) (f_cancelled s) (f_mu s) (f_chan s) (f_ctx s) (f_body s)
                                   (with_caller s t (mkCaller CIdle r now))
                                   (f_runs s) (f_outcome s) (S now) (f_tdone s) (f_tcanc s)
                                   (mkFCall t (FDeref expired) FTimeout now now :: f_hist s))
                    else None      (* blocked until the outcome is available *)
                end
            | FStat d :: r =>
                match f_mu s with
                | None => Some (mkF (f_done s) (f_cancelled s) (Some me) (f_chan s) (f_ctx s) (f_body s)
                                    (with_caller s t (mkCaller (CStatLocked d) (FStat d :: r) now))
                                    (f_runs s) (f_outcome s) (S now) (f_tdone s) (f_tcanc s) (f_hist s))
                | Some _ => None
                end
            | FCancel :: r =>
                match f_mu s with
                | None => Some (mkF (f_done s) (f_cancelled s) (Some me) (f_chan s) (f_ctx s) (f_body s)
                                    (with_caller s t (mkCaller CCanLocked (FCancel :: r) now))
                                    (f_runs s) (f_outcome s) (S now) (f_tdone s) (f_tcanc s) (f_hist s))
                | Some _ => None
                end
            end
        | CHold o =>               (* slot <- o ; return o *)
            match f_chan s with
            | None => Some (mkF (f_done s) (f_cancelled s) (f_mu s) (Some o) (f_ctx s) (f_body s)
                                (with_caller s t (mkCaller CIdle (tl (ctodo c)) now))
                                (f_runs s) (f_outcome s) (S now) (f_tdone s) (f_tcanc s)
                                (finish s t c (match ctodo c with FDeref ex :: _ => FDeref ex | _ => FDeref false end) (FOut o)))
            | Some _ => None
            end
        | CStatLocked d =>
            Some (mkF (f_done s) (f_cancelled s) (f_mu s) (f_chan s) (f_ctx s) (f_body s)
                      (with_caller s t (keep (CStatRead d (if d then f_done s else f_cancelled s))))
                      (f_runs s) (f_outcome s) (S now) (f_tdone s) (f_tcanc s) (f_hist s))
        | CStatRead d b =>
            Some (mkF (f_done s) (f_cancelled s) None (f_chan s) (f_ctx s) (f_body s)
                      (with_caller s t (mkCaller CIdle (tl (ctodo c)) now))
                      (f_runs s) (f_outcome s) (S now) (f_tdone s) (f_tcanc s)
                      (finish s t c (FStat d) (FBool b)))
        | CCanLocked =>
            Some (mkF (f_done s) (f_cancelled s) (f_mu s) (f_chan s) (f_ctx s) (f_body s)
                      (with_caller s t (keep (CCanSeen (f_done s))))
                      (f_runs s) (f_outcome s) (S now) (f_tdone s) (f_tcanc s) (f_hist s))
        | CCanSeen d =>
            if d
            then Some (mkF (f_done s) (f_cancelled s) (f_mu s) (f_chan s) (f_ctx s) (f_body s)
                           (with_caller s t (keep CCanCalled))
                           (f_runs s) (f_outcome s) (S now) (f_tdone s) (f_tcanc s) (f_hist s))
            else Some (mkF (f_done s) true (f_mu s) (f_chan s) (f_ctx s) (f_body s)
                           (with_caller s t (keep CCanW1))
                           (f_runs s) (f_outcome s) (S now) (f_tdone s) (first_time (f_tcanc s) now) (f_hist s))
        | CCanW1 =>
            Some (mkF true (f_cancelled s) (f_mu s) (f_chan s) (f_ctx s) (f_body s)
                      (with_caller s t (keep CCanW2))
                      (f_runs s) (f_outcome s) (S now) (first_time (f_tdone s) now) (f_tcanc s) (f_hist s))
        | CCanW2 =>
            Some (mkF (f_done s) (f_cancelled s) (f_mu s) (f_chan s) true (f_body s)
                      (with_caller s t (keep CCanCalled))
                      (f_runs s) (f_outcome s) (S now) (f_tdone s) (f_tcanc s) (f_hist s))
        | CCanCalled =>
            Some (mkF (f_done s) (f_cancelled s) (f_mu s) (f_chan s) (f_ctx s) (f_body s)
                      (with_caller s t (keep (CCanRet (f_cancelled s))))
                      (f_runs s) (f_outcome s) (S now) (f_tdone s) (f_tcanc s) (f_hist s))
        | CCanRet b =>
            Some (mkF (f_done s) (f_cancelled s) None (f_chan s) (f_ctx s) (f_body s)
                      (with_caller s t (mkCaller CIdle (tl (ctodo c)) now))
                      (f_runs s) (f_outcome s) (S now) (f_tdone s) (f_tcanc s)
                      (finish s t c FCancel (FBool b)))
        end
    end.

  Definition fstep (s : fstate) (who : nat * bool) : option fstate :=
    match fst who with
    | O => body_step s
    | S t => caller_step s t (snd who)
    end.

  Fixpoint frun (s : fstate) (sched : list (nat * bool)) : fstate :=
    match sched with
    | [] => s
    | w :: r => match fstep s w with Some s' => frun s' r | None => frun s r end
    end.

  Definition finit (progs : list (list fop)) : fstate :=
    mkF false false None None false BRun (map (fun p => mkCaller CIdle p 0) progs) 0 None 0 None None [].
End Future.

(** ---- the C10 clauses as an executable predicate over timed histories ----
    run (extracted) by the harness on the histories recorded from the real futures, and proved
    (ConcFutureProofs.v) to hold of every history of the model under every schedule. *)
Section Check.
  Variable Res : Type.
  Variable res_eqb : Res -> Res -> bool.

  Definition fbefore (e1 e2 : fcall Res) : bool := Nat.ltb (fc_resp Res e1) (fc_inv Res e2).

  Definition well_typed (e : fcall Res) : bool :=
    match fc_op Res e, fc_ret Res e with
    | FDeref _, FOut _ _ => true
    | FDeref true, FTimeout _ => true
    | FStat _, FBool _ _ => true
    | FCancel, FBool _ _ => true
    | _, _ => false
    end.

  Definition pair_ok (e1 e2 : fcall Res) : bool :=
    (* every reader gets the same outcome *)
    (match fc_ret Res e1, fc_ret Res e2 with FOut _ o1, FOut _ o2 => res_eqb o1 o2 | _, _ => true end) &&
    (* a status flag seen true is never seen false afterwards *)
    (match fc_op Res e1, fc_ret Res e1, fc_op Res e2, fc_ret Res e2 with
     | FStat d1, FBool _ true, FStat d2, FBool _ false => negb (Bool.eqb d1 d2 && fbefore e1 e2)
     | _, _, _, _ => true
     end) &&
    (* done as soon as any deref has returned the outcome *)
    (match fc_ret Res e1, fc_op Res e2, fc_ret Res e2 with
     | FOut _ _, FStat true, FBool _ false => negb (fbefore e1 e2)
     | _, _, _ => true
     end) &&
    (* cancel: true is final and visible; false means done, never cancelled, nothing changed *)
    (match fc_op Res e1, fc_ret Res e1, fc_op Res e2, fc_ret Res e2 with
     | FCancel, FBool _ true, FStat false, FBool _ false => negb (fbefore e1 e2)
     | FCancel, FBool _ true, FCancel, FBool _ false => false
     | FCancel, FBool _ false, FStat false, FBool _ true => false
     | FCancel, FBool _ false, FStat true, FBool _ false => negb (fbefore e1 e2)
     | _, _, _, _ => true
     end).

  Definition fhist_ok (h : list (fcall Res)) : bool :=
    forallb well_typed h && forallb (fun e1 => forallb (pair_ok e1) h) h.
End Check.
