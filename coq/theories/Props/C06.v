(** C06 — printing then reading returns the same value.
    Proved in full generality: the printer's escaping of strings (quoted form and raw ¬ form)
    is undone by the reader for EVERY string of code points, and the composition through the
    scanner and the reader for whole nested values of any depth (C06_print_then_read). *)
From Lisp Require Import Base Value Core Scanner Reader Printer PrintReadProofs Equal PrintScan PrintInt PrintParse.

(** THE property, for every printable value [pv]: nil, booleans, every int64, every string and keyword (keyword names
    over the scanner's identifier characters), symbols that scan as one identifier (not nil/true/false, not a
    $placeholder), and lists, vectors, hash maps (distinct keys) and sets (distinct members) of such values to any
    depth — whose printed text contains neither U+0000 nor an invalid byte (the open finding, [C06_nul_refuted]).
    Reading the printed text gives the value back; [unpos] erases the source positions the reader attaches to
    symbols, lists and vectors. *)
Theorem C06_print_then_read : forall v, pv v = true -> clean (pr_str true v) = true ->
  exists v', read_str None None None (pr_str true v) = Ok v' /\ unpos v' = unpos v.
Proof. exact print_then_read. Qed.

(** its two halves: the scanner cuts the printed text into exactly the tokens the printer wrote ... *)
Theorem C06_printed_text_scans_to_its_tokens : forall v, pv v = true -> clean (pr_str true v) = true ->
  exists ts, tokenize (pr_str true v) = Some ts /\ map tt ts = toks v.
Proof. exact tokenize_printed. Qed.

(** ... and the printed numeral of every int64 parses back to the number *)
Theorem C06_integers : forall z, in_int64 z = true -> parse_int (Wire.show_Z z) = Some z.
Proof. exact parse_show_Z. Qed.

(** the class is not empty: a nested value with the hard characters meets the premises *)
Example C06_premises_hold :
  let v := VList [VSym (s_ "x-1") None; VStr (KW :: s_ "k"); VInt (-9223372036854775808); VStr (s_ "a""b\c");
                  VVec [VNil; VBool true; VStr [10; 9; 172]%N] None;
                  VMap [(KW :: s_ "a", VList [] None); (s_ "{""k"": 1}", VSet [s_ "x"; KW :: s_ "y"])]] None in
  pv v = true /\ clean (pr_str true v) = true.
Proof. vm_compute. split; reflexivity. Qed.

(** quoted form: unescape . escape = id — for all strings, U+029E, backslashes, quotes,
    newlines included (the code before fix D8 failed this for U+029E) *)
Theorem C06_unescape_escape : forall s, unescape (escape_str s) = s.
Proof. exact unescape_escape. Qed.

(** raw form: un-doubling the raw-string quote inverts doubling, for all strings *)
Theorem C06_undouble_double : forall s, undouble (replace1 RAWQ [RAWQ; RAWQ] s) = s.
Proof. exact undouble_double. Qed.

(** the printed form of a string, as the one token it is, reads back as the string *)
Theorem C06_printed_string_token_reads_back : forall m line s,
  read_atom m (mkTok KString (34%N :: escape_str s ++ [34%N]) line) = Ok (VStr s).
Proof. exact read_atom_printed_string. Qed.
Theorem C06_printed_raw_token_reads_back : forall m line s, s <> [] ->
  read_atom m (mkTok KRawString (RAWQ :: replace1 RAWQ [RAWQ; RAWQ] s ++ [RAWQ]) line) = Ok (VStr s).
Proof. exact read_atom_printed_raw. Qed.

(** the escaped text never contains a raw newline (so the scanner's string literal is not cut) *)
Theorem C06_escaped_has_no_newline : forall s, existsb (N.eqb 10) (escape_str s) = false.
Proof. exact escape_str_no_newline. Qed.

(** computed instances of the whole round trip on nested values with the hard characters *)
Definition roundtrip (v : val) : bool :=
  match read_str None None None (pr_str true v) with Ok v' => eqS v' v | _ => false end.

Example C06_roundtrip_examples :
  forallb roundtrip
    [ VStr (s_ "a""b\c") ; VStr [120; 670; 121]%N ; VStr [10; 9; 13; 172; 123; 125]%N ; VStr (s_ "{""k"": ""v""}") ;
      VStr (s_ "{""a") ; VStr ([123; 34; 172; 172; 125]%N) ; VInt (-9223372036854775808) ; VInt 9223372036854775807 ;
      VList [VSym (s_ "x-1") None; VStr (KW :: s_ "k"); VVec [VNil; VBool true; VBool false] None] None ;
      VMap [(KW :: s_ "a", VList [] None); (s_ "s p", VSet [s_ "x"; KW :: s_ "y"])] ;
      VStr [] ; VList [VStr (s_ "\n"); VStr (s_ "\\")] None ] = true.
Proof. vm_compute. reflexivity. Qed.

(** the open finding: a string containing U+0000 prints, but the third-party scanner rejects
    NUL, so it cannot be read back *)
Example C06_nul_refuted : roundtrip (VStr [97; 0; 98]%N) = false.
Proof. vm_compute. reflexivity. Qed.

Print Assumptions C06_print_then_read.
Print Assumptions C06_printed_text_scans_to_its_tokens.
Print Assumptions C06_integers.
Print Assumptions C06_unescape_escape.
Print Assumptions C06_undouble_double.
Print Assumptions C06_printed_string_token_reads_back.
Print Assumptions C06_printed_raw_token_reads_back.
