(** Entry point of the extracted model driver: one case line in, one result line out.
    The first token selects the operation. *)
From Lisp Require Import Wire Equal.

Definition bad : list N := s_ "BADCASE".

Definition run_equal (ts : list tok) : list N :=
  match parse_values 2 ts with
  | Some ([a; b], []) =>
      match equalI a b with
      | Some true => s_ "T"
      | Some false => s_ "F"
      | None => s_ "P"
      end
  | _ => bad
  end.

Definition run_tokens (ts : list tok) : list N :=
  match ts with
  | TTag c :: r =>
      if N.eqb c (tagc "Q") then run_equal r
      else bad
  | _ => bad
  end.

Definition run_line (bs : list N) : list N := run_tokens (lex_line bs).
